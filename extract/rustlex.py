"""A small Rust lexer + canonical re-printer used by the extractor.

It does not parse Rust; it only knows enough lexical structure (comments, string/char/lifetime
literals, nesting of () [] {}) to cut items out of rustc's `-Zunpretty=expanded` output by brace
matching and to re-print a function body in a canonical "one statement per line" form on which the
sidecar contracts are anchored.
"""
import re

TOKEN_RE = re.compile(r'''
    (?P<ws>\s+)
  | (?P<lcomment>//[^\n]*)
  | (?P<bcomment_open>/\*)
  | (?P<rawstr>b?r(?P<hashes>\#*)")
  | (?P<str>b?"(?:[^"\\]|\\.)*")
  | (?P<char>b?'(?:[^'\\\n]|\\(?:x[0-9a-fA-F]{2}|u\{[0-9a-fA-F_]+\}|.))')
  | (?P<lifetime>'[A-Za-z_][A-Za-z0-9_]*)
  | (?P<num>[0-9][0-9a-zA-Z_]*(?:\.[0-9][0-9a-zA-Z_]*)?(?:[eE][+-]?[0-9_]+)?(?:_?[fiu](?:8|16|32|64|128|size))?)
  | (?P<ident>(?:r\#)?[A-Za-z_][A-Za-z0-9_]*)
  | (?P<punct>::|->|=>|==|!=|<=|>=|&&|\|\||\+=|-=|\*=|/=|%=|\^=|&=|\|=|<<=|>>=|<<|>>|\.\.=|\.\.\.|\.\.|[-+*/%^!&|=<>@.,;:\#$?~(){}\[\]])
''', re.X | re.S)


class Tok:
    __slots__ = ('kind', 'text', 'sp')

    def __init__(self, kind, text, sp):
        self.kind, self.text, self.sp = kind, text, sp

    def __repr__(self):
        return f'{self.kind}:{self.text!r}'


def lex(src, keep_comments=False):
    """-> list of Tok. `sp` = True when whitespace (or a comment) preceded the token."""
    toks = []
    i, n = 0, len(src)
    sp = False
    while i < n:
        m = TOKEN_RE.match(src, i)
        if not m:
            raise ValueError(f'lex error at {i}: {src[i:i+40]!r}')
        k = m.lastgroup
        if k == 'hashes':
            k = 'rawstr'
        if k == 'ws':
            sp = True
            i = m.end()
            continue
        if k == 'lcomment':
            if keep_comments:
                toks.append(Tok('comment', m.group(), sp))
            sp = True
            i = m.end()
            continue
        if k == 'bcomment_open':
            depth, j = 1, m.end()
            while depth and j < n:
                if src.startswith('/*', j):
                    depth += 1
                    j += 2
                elif src.startswith('*/', j):
                    depth -= 1
                    j += 2
                else:
                    j += 1
            if keep_comments:
                toks.append(Tok('comment', src[i:j], sp))
            sp = True
            i = j
            continue
        if k == 'rawstr':
            hashes = m.group('hashes')
            end = src.index('"' + hashes, m.end())
            j = end + 1 + len(hashes)
            toks.append(Tok('str', src[i:j], sp))
            sp = False
            i = j
            continue
        toks.append(Tok(k, m.group(), sp))
        sp = False
        i = m.end()
    return toks


OPEN = {'(': ')', '[': ']', '{': '}'}
CLOSE = {')': '(', ']': '[', '}': '{'}


def match_close(toks, i):
    """toks[i] is an opening bracket; return index of its matching closer."""
    assert toks[i].text in OPEN, toks[i]
    depth = 0
    for j in range(i, len(toks)):
        t = toks[j].text
        if toks[j].kind != 'punct':
            continue
        if t in OPEN:
            depth += 1
        elif t in CLOSE:
            depth -= 1
            if depth == 0:
                return j
    raise ValueError('unbalanced brackets')


def join(toks):
    out = []
    for k, t in enumerate(toks):
        if k and t.sp:
            out.append(' ')
        out.append(t.text)
    return ''.join(out)


def canon_lines(toks):
    """Re-print a token list (a block body, without its outer braces) as canonical lines.

    Rules: a line ends after `;` `{` `}` that occur at paren/bracket depth 0 relative to the
    innermost *block* brace; a `}` is kept together with a directly following `else`, `;`, `,`,
    `)`, `.`, `?` .  Braces opened inside parentheses/brackets (closures, struct literals in
    arguments) never break lines.  Returns list of (indent, text).
    """
    lines = []
    cur = []
    indent = 0
    # stack entries: ('p', ) for ( [ ; ('b', ) block brace ; ('i', ) inline brace (inside parens)
    stack = []

    def flush():
        nonlocal cur
        if cur:
            lines.append((indent, join(cur)))
            cur = []

    def in_paren():
        return any(s == 'p' or s == 'i' for s in stack)

    n = len(toks)
    for k, t in enumerate(toks):
        x = t.text
        if t.kind != 'punct':
            cur.append(t)
            continue
        if x in '([':
            stack.append('p')
            cur.append(t)
        elif x in ')]':
            stack.pop()
            cur.append(t)
        elif x == '{':
            if in_paren():
                stack.append('i')
                cur.append(t)
            else:
                stack.append('m' if any(c.kind == 'ident' and c.text == 'match' for c in cur) else 'b')
                cur.append(t)
                flush()
                indent += 1
        elif x == '}':
            kind = stack.pop()
            if kind == 'i':
                cur.append(t)
            else:
                flush()
                indent -= 1
                cur.append(Tok('punct', '}', False))
                nxt = toks[k + 1] if k + 1 < n else None
                if nxt is not None and (nxt.text in ('else', ';', ',', ')', '.', '?', 'as')):
                    pass
                else:
                    flush()
        elif x == ';':
            cur.append(t)
            if not in_paren():
                flush()
        elif x == ',' and stack and stack[-1] == 'm':
            # separator between match arms: one arm per line
            cur.append(t)
            flush()
        else:
            cur.append(t)
    flush()
    # first token of each line should not carry a leading space
    return lines


def render(lines, base_indent=1):
    return '\n'.join('    ' * (base_indent + ind) + txt for ind, txt in lines)
