"""Run Verus on a generated unit and turn its output into a list of failed obligations with property tags."""
import hashlib
import json
import os
import re
import shutil
import subprocess
import sys
import time

sys.path.insert(0, os.path.dirname(__file__))
import gen as G  # noqa: E402

VERIF = G.VERIF
CACHE = os.path.join(VERIF, '.cache')
GEN = os.path.join(VERIF, 'gen')

STD_EXTRA = open(os.path.join(os.path.dirname(os.path.dirname(os.path.abspath(__file__))), 'spec', 'std_extra.vrs')).read().replace('\n', ' ')
# (kept on ONE line so that line numbers of the unit text do not depend on it)
HEADER = '#![allow(unused)]\nuse vstd::prelude::*;\nuse std::collections::HashMap;\nuse std::collections::HashSet;\nverus! { ' + STD_EXTRA + '\n'
FOOTER = '\n} // verus!\nfn main() {}\n'

TOOL_LIMIT_PATTERNS = [
    r'not supported', r'unsupported', r'Verus does not', r'rlimit', r'Resource limit', r'timed out', r'cannot find', r'mismatched types',
    r'expected .* found', r'unresolved', r'no method named', r'the trait bound', r'error\[E\d+\]', r'borrow', r'cannot move', r'syntax',
]


def verus_version():
    try:
        p = subprocess.run(['verus', '--version'], capture_output=True, text=True)
        return p.stdout.strip().replace('\n', ' ')
    except OSError:
        return 'verus (unknown)'


def count_obligations(air_path):
    """obligations per function: number of `(assert` forms inside each `;; Function-Def` section of root.air"""
    per = {}
    cur = None
    try:
        for ln in open(air_path, errors='replace'):
            if ln.startswith(';; Function-'):
                m = re.match(r';; Function-\w+ (\S+)', ln)
                cur = m.group(1) if m else None
            elif cur and re.match(r'\s*\(assert\s*$', ln):
                per[cur] = per.get(cur, 0) + 1
    except OSError:
        pass
    return per


def _verus(text, unit, gdir, jobs, rlimit, fname):
    """run Verus on `text` (cached by sha256 of the text + Verus version) -> (raw result, path of the generated file)"""
    path = os.path.join(gdir, fname)
    open(path, 'w').write(text)
    sha = hashlib.sha256((text + verus_version()).encode()).hexdigest()
    cdir = os.path.join(CACHE, 'verus')
    os.makedirs(cdir, exist_ok=True)
    cfile = os.path.join(cdir, f'{unit}-{sha[:24]}.json')
    raw = None
    logdir = os.path.join(gdir, f'log-{unit}-{os.getpid()}')
    cmd = ['verus', path, '--output-json', '--time-expanded', '--multiple-errors', '10', '--error-format=json',
           '--triggers-mode', 'silent', '--num-threads', str(jobs), '--log-all', '--log-dir', logdir]
    if rlimit:
        cmd += ['--rlimit', str(rlimit)]
    if os.path.exists(cfile):
        try:
            raw = json.load(open(cfile))
            raw['cache_hit'] = True
            raw['cmd'] = ' '.join(cmd) + '   (result taken from the cache: same generated text, same Verus version)'
        except (OSError, ValueError):
            raw = None
    if raw is None:
        shutil.rmtree(logdir, ignore_errors=True)
        t0 = time.time()
        # wall-clock guard: a query that Z3 does not give up on (seen once on a changed tree) must not hang the check
        limit = int(os.environ.get('VERIF_VERUS_TIMEOUT', '900'))
        proc = subprocess.Popen(cmd, stdout=subprocess.PIPE, stderr=subprocess.PIPE, text=True, cwd=gdir, start_new_session=True)
        try:
            so, se = proc.communicate(timeout=limit)
            rc = proc.returncode
        except subprocess.TimeoutExpired:
            import signal
            try:
                os.killpg(proc.pid, signal.SIGKILL)
            except OSError:
                pass
            so, se = proc.communicate()
            rc = 124
            se = (se or '') + '\n' + json.dumps({'level': 'error', 'message': f'verus timed out after {limit} s (wall clock)', 'spans': [], 'rendered': f'error: verus timed out after {limit} s'})
        wall = time.time() - t0
        per = count_obligations(os.path.join(logdir, 'root.air'))
        shutil.rmtree(logdir, ignore_errors=True)
        raw = {'stdout': so, 'stderr': se, 'returncode': rc, 'wall_s': round(wall, 2),
               'obligations': per, 'cmd': ' '.join(cmd), 'cache_hit': False}
        if rc != 124:       # a wall-clock timeout may be transient (machine load): never cached
            tmp = cfile + f'.tmp{os.getpid()}'
            json.dump(raw, open(tmp, 'w'))
            os.replace(tmp, cfile)
        # prune
        olds = sorted((f for f in os.listdir(cdir)), key=lambda f: os.path.getmtime(os.path.join(cdir, f)))
        for f in olds[:-300]:
            try:
                os.remove(os.path.join(cdir, f))
            except OSError:
                pass
    return raw, path


def _removable(g, k):
    """a sidecar proof statement that stands on one line with balanced brackets: removing it only removes a hint"""
    if not (0 <= k < len(g.lines)):
        return False
    # (ghost statements are recognised syntactically: no line of extracted Rust starts with `proof {`, `assert(` or `lemma_`)
    t = g.lines[k].strip()
    if not re.match(r'(assert\(|proof\s*\{|lemma_\w+\(|\w+::lemma_\w+\(|reveal\()', t):
        return False
    if t.startswith('assert forall') or (t.startswith('assert') and t.rstrip().endswith('by {')):
        return False
    return all(t.count(a) == t.count(b) for a, b in ('()', '{}', '[]')) and t.endswith((';', '}'))


def run_unit(unit, crate, repo, jobs=8, rlimit=None):
    """-> dict(result) ; raises ExtractionError"""
    g = G.generate(unit, crate, repo)
    text = HEADER + g.text() + FOOTER
    off = HEADER.count('\n')
    os.makedirs(GEN, exist_ok=True)
    # runs against a scratch copy of the repository get their own directory, so that they cannot race with a run against /repo
    gdir = GEN if os.path.realpath(repo) == '/repo' else os.path.join(GEN, f'scratch-{os.getpid()}')
    os.makedirs(gdir, exist_ok=True)
    raw, path = _verus(text, unit, gdir, jobs, rlimit, unit + '.rs')
    res = interpret(unit, g, raw, off, path)
    # UNMASKING PASSES.  Verus assumes a failed assertion and carries on; when the failed statement contradicts the context,
    # everything after it is vacuously "verified" (the taint rule records that).  If the failed statement is a sidecar HINT
    # (an assert / lemma call that is not part of any contract), the unit is verified again with that hint removed: obligations
    # that fail then are reported as failed obligations in their own right ("passed on the unchanged tree, cannot be discharged now").
    res['unmask_passes'] = 0
    lines = text.split('\n')
    seen = {(f['function'], f['clause'], f['kind']) for f in res['failures']}
    removed_all = []
    removed_props = set()
    cur = res
    # (a failing function with a large rlimit can cost minutes per reported error: no auxiliary pass after a slow first pass)
    while cur['tainted'] and not cur['tool_errors'] and res['unmask_passes'] < 3 and os.environ.get('VERIF_NO_UNMASK') != '1' and (raw.get('wall_s') or 0) < 400:
        ks = set()
        for f in cur['failures']:
            if f['function'] in g.expect_fail:
                continue
            for k in (f.get('site_k'), f.get('clause_k')):
                if k is not None and _removable(g, k) and (f['kind'].startswith('assertion failed') or 'precondition not satisfied' in f['kind']):
                    ks.add(k)
                    break
        # hints come in chains (each one uses the facts of the previous one): remove every removable hint of the same function
        # that carries exactly the same tags as a failed one
        fn_of_line = G.line_fn_map(g)
        for k in list(ks):
            for k2 in range(len(g.lines)):
                if fn_of_line[k2] == fn_of_line[k] and g.meta[k2]['tags'] == g.meta[k]['tags'] and g.meta[k]['tags'] and _removable(g, k2):
                    ks.add(k2)
        ks = {k for k in ks if not lines[off + k].lstrip().startswith('// unmasked:')}
        if not ks:
            break
        for k in ks:
            removed_all.append(g.lines[k].strip()[:200])
            removed_props.update(t.split(':')[0] for t in g.meta[k]['tags'])
            lines[off + k] = '// unmasked: ' + lines[off + k].strip()
        res['unmask_passes'] += 1
        raw2, _ = _verus('\n'.join(lines), unit, gdir, jobs, rlimit, f'{unit}_unmask{res["unmask_passes"]}.rs')
        cur = interpret(unit, g, raw2, off, path)
        if cur['tool_errors'] and not cur.get('verified'):
            break       # the text without the hint does not compile: nothing learnt
        cur['tool_errors'] = []     # (resource limits of unrelated lemmas in this auxiliary pass do not matter)
        for f in cur['failures']:
            key = (f['function'], f['clause'], f['kind'])
            if key not in seen:
                seen.add(key)
                # a clause that shares a property with the removed hints may fail only because the hints are gone: it stays
                # undecided (taint); a clause of other properties does not use those hints (tagging discipline) and its failure counts
                if {t.split(':')[0] for t in f['tags']} & removed_props:
                    res.setdefault('unmask_dependent', []).append(dict(f, unmasked=True))
                    continue
                f = dict(f, kind=f['kind'] + ' (after removing the failed proof hint(s): ' + ' | '.join(removed_all)[:300] + ')', unmasked=True)
                res['failures'].append(f)
        res['tainted'] = dict(cur['tainted'])
        for f in res.get('unmask_dependent', []):
            if f['function']:
                res['tainted'][f['function']] = sorted(set(res['tainted'].get(f['function'], [])) | set(f['tags']))
    res['removed_hints'] = removed_all
    return res


def interpret(unit, g, raw, off, path):
    fn_of_line = G.line_fn_map(g)
    res = {'unit': unit, 'gen_path': path, 'wall_s': raw['wall_s'], 'cache_hit': raw['cache_hit'], 'cmd': raw['cmd'],
           'lost_anchors': g.lost, 'rule_counts': g.rule_counts, 'functions': g.functions, 'stubs': list(getattr(g, 'stubs', [])), 'failures': [], 'tool_errors': [],
           'expect_fail': sorted(g.expect_fail), 'expect_fail_ok': True}
    try:
        out = json.loads(raw['stdout']) if raw['stdout'].strip().startswith('{') else None
    except ValueError:
        out = None
    diags = []
    for ln in raw['stderr'].split('\n'):
        ln = ln.strip()
        if ln.startswith('{'):
            try:
                diags.append(json.loads(ln))
            except ValueError:
                pass
    vr = (out or {}).get('verification-results', {})
    res['verified'] = vr.get('verified', 0)
    res['errors'] = vr.get('errors', 0)
    res['vir_error'] = vr.get('encountered-vir-error', False)
    # function times
    times = {}
    try:
        for mod in out['times-ms']['smt']['smt-run-module-times']:
            for fb in mod.get('function-breakdown', []):
                nm = fb['function'].split('::')[-1]
                t = times.setdefault(nm, {'time_ms': 0, 'rlimit': 0, 'success': True})
                t['time_ms'] += fb.get('time', 0)
                t['rlimit'] += fb.get('rlimit', 0)
                t['success'] = t['success'] and fb.get('success', False)
        res['smt_ms'] = out['times-ms']['smt']['smt-run']
        res['total_ms'] = out['times-ms']['total']
    except (KeyError, TypeError):
        pass
    res['fn_times'] = times
    # obligations by function (last path segment)
    obl = {}
    for k, v in raw.get('obligations', {}).items():
        nm = k.split('::')[-1]
        obl[nm] = obl.get(nm, 0) + v
    res['obligations'] = obl

    n_verif_err = 0
    for d in diags:
        if d.get('level') != 'error':
            continue
        msg = d.get('message', '')
        if msg.startswith('aborting due to') or 'previous error' in msg:
            continue
        spans = d.get('spans', [])
        is_verif = bool(re.search(r'postcondition not satisfied|precondition not satisfied|invariant not satisfied|assertion failed|'
                                  r'arithmetic underflow/overflow|possible division by zero|decreases not satisfied|'
                                  r'could not prove termination|bit shift underflow/overflow|assertion not satisfied|'
                                  r'failed precondition|unable to prove|precondition not met|requires not satisfied', msg))
        if re.search(r'Resource limit|rlimit|timed out|not supported|unsupported|does not support', msg) or d.get('code'):
            is_verif = False
        if not is_verif or not spans:
            res['tool_errors'].append((d.get('rendered') or msg)[:1500])
            continue
        n_verif_err += 1
        # clause = span labelled "failed this ..." or the primary span; site = the other one
        clause_span = None
        for sp in spans:
            if sp.get('label') and 'failed this' in sp['label']:
                clause_span = sp
        prim = next((sp for sp in spans if sp.get('is_primary')), spans[0])
        if clause_span is None:
            clause_span = prim
        site = next((sp for sp in spans if sp is not clause_span), clause_span)

        def info(sp):
            k = sp['line_start'] - 1 - off
            if 0 <= k < len(g.lines):
                return k, g.meta[k], fn_of_line[k], g.lines[k].strip()
            return k, {'origin': '?', 'tags': frozenset()}, None, ''
        ck, cmeta, cfn, ctext = info(clause_span)
        sk, smeta, sfn, stext = info(site)
        fn = sfn or cfn
        tags = set(cmeta['tags'])
        finfo = g.functions.get(fn or '', {})
        if not tags or 'post-condition of closure' in msg:
            # a closure's `ensures` is contract text inserted by a rewrite into a body line: it belongs to the function's properties
            tags = set(finfo.get('props', [])) | (tags if 'post-condition of closure' in msg else set())
        res['failures'].append({
            'function': fn, 'kind': msg, 'clause': ctext[:300], 'clause_origin': cmeta['origin'],
            'site': stext[:300], 'site_origin': smeta['origin'], 'tags': sorted(tags), 'site_line': max(sk, ck) if sfn == cfn else sk,
            'clause_k': ck, 'site_k': sk, 'span_lines': (site.get('line_start', 0) - 1 - off, site.get('line_end', 0) - 1 - off),
            'src': finfo.get('src'), 'rendered': (d.get('rendered') or '')[:2500],
        })
    # expect-fail functions (canaries) must fail; their failures are not reported
    if g.expect_fail:
        failed_fns = {f['function'] for f in res['failures']}
        if not res['tool_errors']:
            for c in g.expect_fail:
                if c not in failed_fns:
                    res['expect_fail_ok'] = False
        res['failures'] = [f for f in res['failures'] if f['function'] not in g.expect_fail]
    # Taint: Verus ASSUMES a failed assertion and carries on, so every obligation of the same function that comes after the
    # first failure (and every postcondition, checked at the returns) was not really discharged.  Report their tags as
    # `tainted` (undecided for those properties unless the witness search finds a failing input) -- never as proved.
    res['tainted'] = {}
    first_fail = {}
    for f in res['failures']:
        if f.get('site_line') is not None and f['function']:
            first_fail[f['function']] = min(first_fail.get(f['function'], 10**9), f['site_line'])
    if first_fail:
        sig_open = {}
        for k, fn in enumerate(fn_of_line):
            if fn in first_fail:
                tg = g.meta[k]['tags']
                body_started = sig_open.get(fn, False)
                if g.lines[k].strip() == '{' and not body_started:
                    sig_open[fn] = True
                if (not body_started) or k > first_fail[fn]:
                    if tg:
                        res['tainted'].setdefault(fn, set()).update(tg)
        res['tainted'] = {k: sorted(v) for k, v in res['tainted'].items()}
    if raw['returncode'] != 0 and n_verif_err == 0 and not res['tool_errors']:
        res['tool_errors'].append('verus exited with %s and no diagnostics: %s' % (raw['returncode'], raw['stderr'][-1500:]))
    return res
