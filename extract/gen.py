"""Template processing: a unit template (`units/<name>.vrs`) is Verus text with `//@` directives that pull
items out of the expanded crate.  Produces one self-contained Verus file plus a line map."""
import hashlib
import json
import os
import re
import sys

sys.path.insert(0, os.path.dirname(__file__))
import extractor as X  # noqa: E402
from extractor import ExtractionError  # noqa: E402

VERIF = os.path.dirname(os.path.dirname(os.path.abspath(__file__)))

FN_RE = re.compile(r'^\s*(?:pub(?:\([a-z]+\))?\s+)?(?:(?:open|closed|uninterp)\s+)?(?:(?:spec|proof|exec|const|broadcast)\s+)*fn\s+(\w+)')


class Generated:
    def __init__(self):
        self.lines = []  # text
        self.meta = []  # per line: dict(origin=, tags=frozenset)
        self.auto_consts = {}  # rule D4
        self.functions = {}  # name -> dict(kind='extracted'|'template', module=, sha256=, rules=, src=...)
        self.expect_fail = set()
        self.lost = []
        self.rule_counts = {}
        self.fn_props = {}  # fn name -> (props, auto)
        self.sidecars = {}
        self.stubs = []
        self.notes = []
        self.unit_rewrites = []

    def add(self, text, origin, tags):
        for ln in text.split('\n'):
            self.lines.append(ln)
            self.meta.append({'origin': origin, 'tags': tags})

    def text(self):
        return '\n'.join(self.lines) + '\n'


def find_src_line(repo, module, name):
    """best-effort: file and line of `fn name` in /repo/src for reporting"""
    cands = []
    if module.startswith('__dep_'):
        # a function of a dependency (rule D5): report the registry source of the version Cargo.lock pins
        import glob
        pkg = module.split('::')[0][6:]
        try:
            lock = open(os.path.join(repo, 'Cargo.lock')).read()
        except OSError:
            lock = ''
        m = re.search(r'name = "' + re.escape(pkg) + r'"\nversion = "([^"]+)"', lock)
        if not m:
            pkg = pkg.replace('_', '-')
            m = re.search(r'name = "' + re.escape(pkg) + r'"\nversion = "([^"]+)"', lock)
        ver = m.group(1) if m else '?'
        for c in glob.glob(os.path.expanduser(f'~/.cargo/registry/src/*/{pkg}-{ver}/src/' + '/'.join(module.split('::')[1:]) + '.rs')):
            for k, ln in enumerate(open(c), 1):
                if re.search(r'\bfn\s+' + re.escape(name) + r'\b', ln):
                    return f'dependency {pkg} {ver}: src/{os.path.basename(c)}:{k}'
        for c in glob.glob(os.path.expanduser(f'~/.cargo/registry/src/*/{pkg}-{ver}/src/*.rs')):
            for k, ln in enumerate(open(c), 1):
                if re.search(r'\bfn\s+' + re.escape(name) + r'\b', ln):
                    return f'dependency {pkg} {ver}: src/{os.path.basename(c)}:{k}' + (' (macro body, instance `' + module.split('::')[-1] + '`)' if len(module.split('::')) > 1 else '')
        return f'dependency {pkg} {ver}'
    if module:
        base = os.path.join(repo, 'src', *module.split('::'))
        cands = [base + '.rs', os.path.join(base, 'mod.rs')]
    for c in cands:
        if os.path.exists(c):
            for k, ln in enumerate(open(c), 1):
                if re.search(r'\bfn\s+' + re.escape(name) + r'\b', ln):
                    return f'{os.path.relpath(c, repo)}:{k}'
            # duplicate_item templates: the name appears in the substitution table
            for k, ln in enumerate(open(c), 1):
                if re.search(r'\[' + re.escape(name) + r'\]', ln):
                    return f'{os.path.relpath(c, repo)}:{k} (duplicate_item row)'
            return os.path.relpath(c, repo)
    return None


def load_sidecar(unit, fn_name):
    """raw sidecar lines of `fn_name` as defined (by //@fn or //@twin) in units/<unit>.vrs"""
    path = os.path.join(VERIF, 'units', unit + '.vrs')
    src = open(path).read().split('\n')
    found = {}
    i = 0
    while i < len(src):
        s = src[i].strip()
        if s.startswith('//@fn '):
            name = next((o[3:] for o in s[6:].split()[2:] if o.startswith('as=')), s[6:].split()[1])
            j = i + 1
            body = []
            while j < len(src) and src[j].strip() != '//@end':
                body.append(src[j])
                j += 1
            found[name] = body
            i = j
        elif s.startswith('//@twin '):
            parts = s[8:].split(None, 2)
            opts = parts[2] if len(parts) > 2 else ''
            m_of = re.search(r'\bof=(\w+)', opts)
            if m_of and m_of.group(1) in found:
                body = list(found[m_of.group(1)])
                subs = re.findall(r'sub=/((?:[^/\\]|\\.)*)/=>(\S*)', opts)
                subs.append((r'\b' + m_of.group(1) + r'\b', parts[1]))
                for pat, rep in subs:
                    body = [re.sub(pat, rep, ln2) for ln2 in body]
                found[parts[1]] = body
        i += 1
    if fn_name not in found:
        raise ExtractionError(f'//@stub: `{fn_name}` is not defined in unit {unit}')
    body = found[fn_name]
    for bl in body:
        if bl.strip().startswith('//@sig-of '):
            other = bl.strip().split()[1]
            return ['//@sig'] + [re.sub(r'\bfn ' + re.escape(other) + r'\b', 'fn ' + fn_name, l3) for l3 in sig_of(load_sidecar(unit, other))]
    return body


def sig_of(body, keep_tags=False):
    """the //@sig block of a sidecar; region tags (`//# ...` lines) are dropped for stubs and kept for `//@sig-of`, so that a
    function that shares another one's contract also shares the property tags of its clauses"""
    out = []
    on = False
    for ln in body:
        s = ln.strip()
        if s.startswith('//@'):
            on = s.startswith('//@sig')
            continue
        if on:
            if s.startswith('//#'):
                if keep_tags:
                    out.append(ln)
                continue
            out.append(ln.rstrip() if keep_tags else re.sub(r'//#.*$', '', ln).rstrip())
    return out


# names of the locals each extracted function bound when its sidecar was written (bin/record-locals; rule R10)
RECORDED_LOCALS = {}
try:
    LOCALS = json.load(open(os.path.join(VERIF, 'units', 'locals.json')))
except (OSError, ValueError):
    LOCALS = {}


TEMPLATE_TEXT = {}


def process_template(path, crate, repo, gen=None, depth=0):
    gen = gen or Generated()
    src = open(path).read().split('\n')
    TEMPLATE_TEXT[path] = '\n'.join(src)
    rel = os.path.relpath(path, VERIF)
    tags = frozenset()
    sidecars = gen.sidecars
    i = 0
    while i < len(src):
        ln = src[i]
        s = ln.strip()
        if s.startswith('//#'):
            tags = frozenset(s[3:].split())
            i += 1
            continue
        m_tag = re.search(r'//#\s*(.*)$', ln)
        if m_tag and not s.startswith('//@'):
            tags = frozenset(m_tag.group(1).split())
            ln = ln[:m_tag.start()].rstrip()
        if not s.startswith('//@'):
            gen.add(ln, f'{rel}:{i+1}', tags)
            i += 1
            continue
        d = s[3:].strip()
        kw, _, arg = d.partition(' ')
        arg = arg.strip()
        if kw == 'include':
            process_template(os.path.join(VERIF, arg), crate, repo, gen, depth + 1)
        elif kw in ('struct', 'enum', 'const'):
            a = arg.split(None, 2)
            module = '' if a[0] in ('-', 'crate') else a[0]
            try:
                toks = X.strip_attrs(crate.find_item(module, kw, a[1]))
            except ExtractionError:
                if kw == 'const':
                    # a constant that no longer exists: the code using it is gone too (or fails to type-check => exit 2)
                    gen.notes.append(f'const {module}::{a[1]} not found in the expanded crate')
                    i += 1
                    continue
                raise
            extra = a[2] if len(a) > 2 else ''
            txt = X.item_text(toks)
            txt = re.sub(r'\bpub\(crate\)\s+', 'pub ', txt)
            for rid, pat, rep in X.GLOBAL_RULES:
                txt, k = re.subn(pat, rep, txt)
                if k:
                    gen.rule_counts[rid] = gen.rule_counts.get(rid, 0) + k
            if extra:
                gen.add(extra, f'{rel}:{i+1}', tags)
            gen.add(txt, f'/repo {module}::{a[1]}', tags)
            gen.rule_counts['D1'] = gen.rule_counts.get('D1', 0) + 1
        elif kw == 'expect-body':
            # //@expect-body <module> <fn> impl=<re> /regex/ : a rule of this unit ASSUMES what a small function of /repo does (e.g. R4: the
            # IntoIterator impl of &Directory is `self.entries.iter()`); the assumption is checked against the current text on every
            # run, a mismatch is a lost anchor (the run is undecided unless a failing input is found)
            m_e = re.match(r'(\S+)\s+(\S+)\s+(?:impl=(\S+)\s+)?/(.*)/\s*$', arg)
            if not m_e:
                raise ExtractionError(f'{rel}:{i+1}: malformed //@expect-body')
            mod_e, fn_e, impl_e, rx_e = m_e.groups()
            try:
                f_e = crate.find_fn(mod_e, fn_e, impl_e)
                body_e = ' '.join(t for _, t in X.canon_lines(X.strip_attrs(list(f_e['body'])))).strip()
            except ExtractionError as e_e:
                body_e = None
                gen.lost.append(f'expect-body {mod_e}::{fn_e}: {e_e}')
            if body_e is not None and not re.fullmatch(rx_e, body_e):
                gen.lost.append(f'expect-body {mod_e}::{fn_e}: the body is `{body_e[:120]}`, the extraction rules of this unit assume /{rx_e}/')
            gen.rule_counts['R4g'] = gen.rule_counts.get('R4g', 0) + 1
        elif kw == 'expect-same-body':
            # //@expect-same-body <modA> <fnA> impl=<re> <modB> <fnB> impl=<re>: rule D2 applied to a dependency -- the async twin (taken
            # from the dependency's source file) must be the sync function modulo `async`/`.await`
            a = arg.split()
            try:
                fa = crate.find_fn(a[0], a[1], a[2][5:])
                fb = crate.find_fn(a[3], a[4], a[5][5:])
                ta = [t for _, t in X.canon_lines(X.strip_attrs(list(fa['body'])))]
                tb = [t for _, t in X.canon_lines(X.strip_attrs(list(fb['body'])))]
                norm = lambda ls: re.sub(r'\s*([^\w\s])\s*', r'\1', re.sub(r'\s+', ' ', ' '.join(ls))).replace('.await', '').strip()
                if norm(ta) != norm(tb):
                    gen.lost.append(f'expect-body {a[0]}::{a[1]}: differs from {a[3]}::{a[4]} by more than `.await` (rule D2 for the dependency)')
            except ExtractionError as e_e:
                gen.lost.append(f'expect-body {a[0]}::{a[1]}: {e_e}')
            gen.rule_counts['D2dep'] = gen.rule_counts.get('D2dep', 0) + 1
        elif kw == 'stub':
            # //@stub <unit> <fn> [as=<name>] : the contract PROVED for <fn> in unit <unit>, as an external_body declaration
            a = arg.split()
            body = load_sidecar(a[0], a[1])
            sig = sig_of(body)
            new_name = next((o[3:] for o in a[2:] if o.startswith('as=')), a[1])
            sig = [re.sub(r'\bfn ' + re.escape(a[1]) + r'\b', 'fn ' + new_name, ln2) for ln2 in sig]
            gen.add('#[verifier::external_body]', f'{rel}:{i+1}', tags)
            gen.add('\n'.join(sig), f'contract of {a[0]}::{a[1]} (proved in unit {a[0]})', tags)
            gen.add('{ unimplemented!() }', f'{rel}:{i+1}', tags)
            m_em = re.search(r'\bfn (\w+)', '\n'.join(sig))
            gen.stubs.append({'unit': a[0], 'fn': a[1], 'as': new_name, 'emitted': m_em.group(1) if m_em else new_name})
        elif kw == 'unit-rewrite':
            # //@unit-rewrite <rule> /re/ -> repl : applied to every function extracted in this unit after this line
            m = re.match(r'(\w+)\s+/(.*)/\s*->\s*(.*)$', arg)
            if not m:
                raise ExtractionError(f'{rel}:{i+1}: bad unit-rewrite')
            gen.unit_rewrites.append((m.group(2), m.group(3), m.group(1)))
        elif kw == 'expect-fail':
            gen.expect_fail.update(arg.split())
        elif kw in ('fn', 'twin'):
            j = i + 1
            body = []
            if kw == 'fn':
                while j < len(src) and src[j].strip() != '//@end':
                    body.append(src[j])
                    j += 1
                if j >= len(src):
                    raise ExtractionError(f'{rel}:{i+1}: //@fn without //@end')
                sidecars[next((o[3:] for o in arg.split()[2:] if o.startswith('as=')), arg.split()[1])] = body
            else:
                # //@twin <module> <name> of=<other> [sub=/re/=>repl ...] : same sidecar as the twin, textual substitutions
                parts = arg.split(None, 2)
                opts = parts[2] if len(parts) > 2 else ''
                m_of = re.search(r'\bof=(\w+)', opts)
                if not m_of or m_of.group(1) not in sidecars:
                    raise ExtractionError(f'{rel}:{i+1}: //@twin needs of=<previously defined fn>')
                body = list(sidecars[m_of.group(1)])
                subs = re.findall(r'sub=/((?:[^/\\]|\\.)*)/=>(\S*)', opts)
                subs.append((r'\b' + m_of.group(1) + r'\b', parts[1]))
                body = [ln2 for ln2 in body]
                for pat, rep in subs:
                    body = [re.sub(pat, rep, ln2) for ln2 in body]
                sidecars[parts[1]] = body
                extra = ' '.join(o for o in opts.split() if o.startswith(('auto=', 'props=', 'impl=', 'as=')))
                arg = parts[0] + ' ' + parts[1] + (' ' + extra if extra else '')
                j = i
            # region tags inside the sidecar: resolved after weaving (they travel with the text as comments)
            nb = []
            shares_sig = False
            for bl in body:
                if bl.strip().startswith('//@sig-of '):
                    shares_sig = True
                    other = bl.strip().split()[1]
                    if other not in sidecars:
                        raise ExtractionError(f'{rel}:{i+1}: //@sig-of {other}: unknown function')
                    this = arg.split()[1]
                    nb.append('//@sig')
                    nb.extend(re.sub(r'\bfn ' + re.escape(other) + r'\b', 'fn ' + this, l3) for l3 in sig_of(sidecars[other], keep_tags=True))
                else:
                    nb.append(bl)
            body = nb
            sc = X.Sidecar(arg, body, f'{rel}:{i+1}')
            fn = crate.find_fn(sc.module, sc.name, sc.impl_re)
            log = X.RuleLog()
            lost = []
            lkey = f"{sc.module}::{sc.opts.get('as') or sc.name}"
            # R3 (second half): the sidecar signature was written against the parameter and result TYPES the function had when the
            # sidecar was recorded; a changed type must not be overridden silently by the sidecar's
            ppairs = None
            sig_now = re.sub(r'\s+', ' ', X.join(X.strip_attrs(list(fn['sig'])))).strip()
            sig_now = re.sub(r'^(pub(\([a-z]+\))? )?', '', sig_now)
            if os.environ.get('VERIF_RECORD_LOCALS') == '1':
                RECORDED_LOCALS['sig ' + lkey] = sig_now
            elif LOCALS.get('sig ' + lkey) is not None and LOCALS['sig ' + lkey] != sig_now \
                    and (ppairs := X.param_renaming(X.strip_attrs(list(fn['sig'])), LOCALS['sig ' + lkey])) is not None:
                pass    # only parameter NAMES differ: rule R10 renames them back together with the locals (weave)
            elif LOCALS.get('sig ' + lkey) is not None and LOCALS['sig ' + lkey] != sig_now:
                raise ExtractionError(f"signature of `{sc.name}` changed: the sidecar was written for `{LOCALS['sig ' + lkey][:200]}`, /repo has `{sig_now[:200]}`")
            if os.environ.get('VERIF_RECORD_LOCALS') == '1':
                RECORDED_LOCALS[lkey] = X.binders(X.strip_attrs(list(fn['body'])))
                woven = X.weave(fn, sc, log, lost, gen.unit_rewrites)
            else:
                woven = X.weave(fn, sc, log, lost, gen.unit_rewrites, expected_locals=LOCALS.get(lkey), param_pairs=ppairs)
            gen.lost.extend(lost)
            # D4: a constant of the function's module that the function mentions and the unit does not declare is extracted too
            # (so that a changed tree that introduces a constant stays inside the verifier's reach)
            body_text = X.join(fn['body'])
            for cname in sorted(set(re.findall(r'\b[A-Z][A-Z0-9_]{2,}\b', body_text))):
                if cname in gen.auto_consts or re.search(r'\bconst ' + cname + r'\b', '\n'.join(gen.lines)) or re.search(r'//@const \S+ ' + cname + r'\b', TEMPLATE_TEXT.get(path, '')):
                    continue
                mod_try = sc.module
                while True:
                    try:
                        toks_c = X.strip_attrs(crate.find_item(mod_try, 'const', cname))
                        txt_c = re.sub(r'\bpub\(crate\)\s+', 'pub ', X.item_text(toks_c))
                        for rid, pat, rep in X.GLOBAL_RULES:
                            txt_c = re.sub(pat, rep, txt_c)
                        gen.auto_consts[cname] = (txt_c, f'/repo {mod_try}::{cname}')
                        gen.rule_counts['D4'] = gen.rule_counts.get('D4', 0) + 1
                        break
                    except ExtractionError:
                        if mod_try == '':
                            # not in the module chain: a constant imported with `use` -- accept a crate-wide UNIQUE definition
                            hits = crate.find_const_anywhere(cname) if hasattr(crate, 'find_const_anywhere') else []
                            if len(hits) == 1:
                                txt_c = re.sub(r'\bpub\(crate\)\s+', 'pub ', X.item_text(X.strip_attrs(hits[0][1])))
                                for rid, pat, rep in X.GLOBAL_RULES:
                                    txt_c = re.sub(pat, rep, txt_c)
                                gen.auto_consts[cname] = (txt_c, f'/repo {hits[0][0]}::{cname}')
                                gen.rule_counts['D4'] = gen.rule_counts.get('D4', 0) + 1
                            break
                        mod_try = mod_try.rsplit('::', 1)[0] if '::' in mod_try else ''
            for k, v in log.counts.items():
                gen.rule_counts[k] = gen.rule_counts.get(k, 0) + v
            sha = hashlib.sha256(X.join(fn['sig'] + fn['body']).encode()).hexdigest()
            out_name = sc.opts.get('as', sc.name)
            if out_name in gen.functions:
                out_name = f"{sc.name}@{sc.module.split('::')[-1]}" + (f"#{len(gen.functions)}" if f"{sc.name}@{sc.module.split('::')[-1]}" in gen.functions else '')
            gen.functions[out_name] = {'kind': 'extracted', 'module': sc.module, 'repo_name': sc.name, 'sha256': sha[:16],
                                       'rules': dict(log.counts), 'src': find_src_line(repo, sc.module, sc.name),
                                       'props': sc.opts.get('props', '').split(',') if sc.opts.get('props') else [],
                                       'auto': sc.opts.get('auto', '').split(',') if sc.opts.get('auto') else [],
                                       'lost_anchors': lost}
            side_tags = set()
            for bl in body + woven:
                mt2 = re.search(r'//#\s*(.*)$', bl)
                if mt2:
                    side_tags.update(t.split(':')[0] for t in mt2.group(1).split() if not t.startswith('@'))
            gen.functions[out_name]['cone'] = sorted(set(gen.functions[out_name]['props']) | side_tags | set(gen.functions[out_name]['auto']))
            props = frozenset(gen.functions[out_name]['props'])
            auto = frozenset(t + ':auto' for t in gen.functions[out_name]['auto'])
            # an async function that takes its whole contract from its sync twin (`//@sig-of`) and is listed for C12 is a twin as well
            is_twin = kw == 'twin' or (shares_sig and any(t == 'C12' or t.startswith('C12:') for t in props))
            if is_twin:
                props = props | frozenset(['C12:twin_contract'])
                auto = auto | frozenset(['C12:twin_contract'])
            ftags = props
            for wl in woven:
                mt = re.search(r'//#\s*(.*)$', wl)
                if mt:
                    tg = mt.group(1).split()
                    ftags = props if tg == ['@props'] else auto if tg == ['@auto'] else frozenset(tg)
                    if is_twin:
                        # an async twin is verified against the SAME contract as its sync twin: any failed obligation in it is also a C12 failure
                        ftags = ftags | frozenset(['C12:twin_contract'])
                    wl = wl[:mt.start()].rstrip()
                    if not wl.strip():
                        continue
                gen.add(wl, f'/repo {sc.module}::{sc.name}', ftags)
            i = j
        elif kw == 'end':
            pass
        else:
            raise ExtractionError(f'{rel}:{i+1}: unknown directive {kw}')
        i += 1
    return gen


def generate(unit, crate, repo):
    path = os.path.join(VERIF, 'units', unit + '.vrs')
    gen = process_template(path, crate, repo)
    # D4: constants mentioned by extracted functions and declared nowhere in the unit -- transitively: a constant defined in terms of
    # other constants of the crate (`const A: u64 = B - 1;`) pulls those in as well (also for `//@const` items)
    for _round in range(4):
        full = '\n'.join(gen.lines)
        const_texts = re.findall(r'^\s*pub const [A-Z][A-Z0-9_]*\s*:[^;]*;', full, re.M) + [t for t, _ in gen.auto_consts.values()]
        grew = False
        for ct in const_texts:
            for cname in set(re.findall(r'\b[A-Z][A-Z0-9_]{2,}\b', ct.split('=', 1)[1] if '=' in ct else '')):
                if cname in gen.auto_consts or re.search(r'\b(const|static) ' + cname + r'\b', full):
                    continue
                hits = crate.find_const_anywhere(cname)
                if len(hits) == 1:
                    txt_c = re.sub(r'\bpub\(crate\)\s+', 'pub ', X.item_text(X.strip_attrs(hits[0][1])))
                    if not txt_c.lstrip().startswith('pub '):
                        txt_c = 'pub ' + txt_c.lstrip()
                    gen.auto_consts[cname] = (txt_c, f'/repo {hits[0][0]}::{cname}')
                    gen.rule_counts['D4'] = gen.rule_counts.get('D4', 0) + 1
                    grew = True
        if not grew:
            break
    full = '\n'.join(gen.lines)
    for cname, (txt_c, origin_c) in sorted(gen.auto_consts.items()):
        if not re.search(r'\b(const|static) ' + cname + r'\b', full):
            gen.add(txt_c, origin_c, frozenset())
        else:
            gen.rule_counts['D4'] = gen.rule_counts.get('D4', 1) - 1
    # register template-level functions
    for k, ln in enumerate(gen.lines):
        m = FN_RE.match(ln)
        if m and m.group(1) not in gen.functions:
            gen.functions[m.group(1)] = {'kind': 'template', 'origin': gen.meta[k]['origin']}
    return gen


def line_fn_map(gen):
    """for each generated line index: name of the function it belongs to (by scanning)"""
    cur = None
    out = []
    for ln in gen.lines:
        m = FN_RE.match(ln)
        if m:
            cur = m.group(1)
        out.append(cur)
    return out
