"""Mechanical extraction of functions from rustc's macro-expanded output of /repo and weaving of
sidecar contracts into them.  See extract/RULES.md for the complete list of what is changed/dropped.

Pipeline per function:
    expanded crate text --locate--> item tokens --canon_lines--> lines
      --global rewrite rules (RULES)--> lines --tree rules (R4 enumerate, R5 continue, R6 mut self)-->
      --sidecar (signature, loop clauses, insertions)--> Verus text
"""
import hashlib
import os
import re
import shutil
import subprocess
import sys
import time

sys.path.insert(0, os.path.dirname(__file__))
import rustlex  # noqa: E402
from rustlex import Tok, lex, match_close, join, canon_lines  # noqa: E402


class ExtractionError(Exception):
    """Anything that prevents producing the Verus text: never a property violation (exit 2)."""


# --------------------------------------------------------------------------------------------
# expansion
# --------------------------------------------------------------------------------------------
def repo_fingerprint(repo):
    h = hashlib.sha256()
    files = []
    for root, dirs, fs in os.walk(os.path.join(repo, 'src')):
        dirs.sort()
        for f in sorted(fs):
            files.append(os.path.join(root, f))
    for f in ('Cargo.toml', 'Cargo.lock'):
        files.append(os.path.join(repo, f))
    for f in files:
        h.update(f.encode())
        try:
            h.update(open(f, 'rb').read())
        except OSError:
            h.update(b'<missing>')
    return h.hexdigest()


DEP_PACKAGES = ['integer-encoding', 'hilbert_2d']


def expand(repo, cache_dir, features='async'):
    """Run `cargo +nightly rustc -- -Zunpretty=expanded` on the current working tree of `repo`.
    The result is cached by the sha256 of every file under src/ plus Cargo.toml/Cargo.lock, so a
    cache hit is only possible for a byte-identical source tree."""
    fp = repo_fingerprint(repo)
    os.makedirs(cache_dir, exist_ok=True)
    cached = os.path.join(cache_dir, f'expanded3-{features or "default"}-{fp[:24]}.rs')
    if os.path.exists(cached):
        return open(cached).read(), {'fingerprint': fp, 'cache_hit': True, 'wall_s': 0.0}
    scratch = os.path.join(cache_dir, f'exp-target-{os.getpid()}')
    shutil.rmtree(scratch, ignore_errors=True)
    t0 = time.time()
    cmd = ['cargo', '+nightly', 'rustc', '--offline', '--lib', '--profile', 'check', '--target-dir', scratch]
    if features:
        cmd += ['--features', features]
    cmd += ['--', '-Zunpretty=expanded']
    env = dict(os.environ, CARGO_NET_OFFLINE='true')
    p = subprocess.run(cmd, cwd=repo, capture_output=True, text=True, env=env)
    shutil.rmtree(scratch, ignore_errors=True)
    if p.returncode != 0 or not p.stdout.strip():
        raise ExtractionError('macro expansion of /repo failed (does the tree compile?):\n' + p.stderr[-3000:])
    out_text = p.stdout
    # rule D5: the dependencies whose functions are put under contract themselves (units/varint_dep.vrs) are expanded the same way
    # -- the version /repo's Cargo.lock resolves to -- and appended as `mod __dep_<name> { .. }`; the raw source files (with the
    # cfg-gated async twins that a default-feature expansion does not contain) are appended as `mod __raw_<file> { .. }` inside it
    for pkg in DEP_PACKAGES:
        scratch = os.path.join(cache_dir, f'exp-target-{os.getpid()}')
        pd = subprocess.run(['cargo', '+nightly', 'rustc', '--offline', '-p', pkg, '--profile', 'check', '--target-dir', scratch,
                             '--', '-Zunpretty=expanded'], cwd=repo, capture_output=True, text=True, env=env)
        shutil.rmtree(scratch, ignore_errors=True)
        mod = '__dep_' + pkg.replace('-', '_')
        if pd.returncode != 0 or not pd.stdout.strip():
            out_text += f'\nmod {mod} {{ }}\n'      # functions of the dependency will be reported as not found (UNDECIDED)
            continue
        raw = ''
        try:
            md = subprocess.run(['cargo', 'metadata', '--offline', '--format-version', '1'], cwd=repo, capture_output=True, text=True, env=env)
            import json as _json
            for pk in _json.loads(md.stdout)['packages']:
                if pk['name'] == pkg:
                    srcdir = os.path.join(os.path.dirname(pk['manifest_path']), 'src')
                    for f in sorted(os.listdir(srcdir)):
                        if f.endswith('.rs') and not f.endswith('_tests.rs') and f != 'lib.rs':
                            raw += f'\nmod __raw_{f[:-3]} {{\n' + open(os.path.join(srcdir, f)).read() + '\n}\n'
        except Exception:
            raw = ''
        out_text += f'\nmod {mod} {{\n' + pd.stdout + raw + '\n}\n'
    tmp = cached + f'.tmp{os.getpid()}'
    open(tmp, 'w').write(out_text)
    os.replace(tmp, cached)
    # keep the cache small
    olds = sorted((f for f in os.listdir(cache_dir) if f.startswith('expanded')),
                  key=lambda f: os.path.getmtime(os.path.join(cache_dir, f)))
    for f in olds[:-12]:
        try:
            os.remove(os.path.join(cache_dir, f))
        except OSError:
            pass
    return out_text, {'fingerprint': fp, 'cache_hit': False, 'wall_s': round(time.time() - t0, 1)}


# --------------------------------------------------------------------------------------------
# crate index
# --------------------------------------------------------------------------------------------
class Crate:
    def __init__(self, text):
        self.text = text
        self.toks = lex(text)

    def _module_range(self, path):
        """token index range (lo, hi) of the body of module `a::b` ('' = crate root)."""
        lo, hi = 0, len(self.toks)
        if not path:
            return lo, hi
        for name in path.split('::'):
            found = None
            i = lo
            depth = 0
            while i < hi:
                t = self.toks[i]
                if t.kind == 'punct' and t.text == '{':
                    depth += 1
                elif t.kind == 'punct' and t.text == '}':
                    depth -= 1
                elif depth == 0 and t.kind == 'ident' and t.text == 'mod' and i + 2 < hi \
                        and self.toks[i + 1].text == name and self.toks[i + 2].text == '{':
                    found = i + 2
                    break
                i += 1
            if found is None:
                raise ExtractionError(f'module `{name}` of `{path}` not found in the expanded crate')
            end = match_close(self.toks, found)
            lo, hi = found + 1, end
        return lo, hi

    def find_fns(self, module, name):
        """all `fn name` items (at any impl nesting) inside module; returns list of dicts."""
        lo, hi = self._module_range(module)
        res = []
        i = lo
        depth = 0
        impl_stack = []  # (depth, header text)
        while i < hi:
            t = self.toks[i]
            if t.kind == 'ident' and t.text == 'mod' and self.toks[i + 2].text == '{' and depth == 0 and False:
                pass
            if t.kind == 'ident' and t.text in ('impl',) and (i == lo or self.toks[i - 1].text in ('}', ';', ']', '{', 'unsafe')):
                # impl header up to its `{`
                j = i
                while self.toks[j].text != '{':
                    j += 1
                impl_stack.append((depth, join(self.toks[i:j])))
                depth += 1
                i = j + 1
                continue
            if t.kind == 'punct' and t.text == '{':
                depth += 1
            elif t.kind == 'punct' and t.text == '}':
                depth -= 1
                if impl_stack and impl_stack[-1][0] == depth:
                    impl_stack.pop()
            elif t.kind == 'ident' and t.text == 'fn' and self.toks[i + 1].text == name \
                    and self.toks[i + 1].kind == 'ident':
                # only items directly inside a module or an impl (not nested fns in bodies)
                # find start of qualifiers
                s = i
                while s - 1 >= lo and (self.toks[s - 1].text in ('pub', 'async', 'const', 'unsafe', 'crate', 'extern')
                                       or (self.toks[s - 1].text == ')' and self.toks[s - 3].text == 'pub')
                                       or (self.toks[s - 1].text == 'crate' and self.toks[s - 2].text == '(')
                                       or (self.toks[s - 1].text == '(' and self.toks[s - 2].text == 'pub')):
                    s -= 1
                j = i
                pd = 0
                while True:
                    x = self.toks[j]
                    if x.kind == 'punct' and x.text in '([':
                        pd += 1
                    elif x.kind == 'punct' and x.text in ')]':
                        pd -= 1
                    elif x.kind == 'punct' and x.text == '{' and pd == 0:
                        break
                    elif x.kind == 'punct' and x.text == ';' and pd == 0:
                        j = None
                        break
                    j += 1
                if j is not None:
                    e = match_close(self.toks, j)
                    res.append({'module': module, 'name': name, 'impl': impl_stack[-1][1] if impl_stack else None,
                                'sig': self.toks[s:j], 'body': self.toks[j + 1:e], 'span': (s, e)})
                    i = e + 1
                    continue
            i += 1
        return res

    def find_fn(self, module, name, impl_re=None):
        fs = self.find_fns(module, name)
        if impl_re is not None:
            fs = [f for f in fs if f['impl'] and re.search(impl_re, f['impl'])]
        if len(fs) != 1:
            raise ExtractionError(f'function `{module}::{name}`' + (f' in impl /{impl_re}/' if impl_re else '') +
                                  f': expected exactly one definition in the expanded crate, found {len(fs)}')
        return fs[0]

    def find_item(self, module, kw, name):
        """struct / enum / const item tokens (without attributes)."""
        lo, hi = self._module_range(module)
        i, depth = lo, 0
        while i < hi:
            t = self.toks[i]
            if t.kind == 'punct' and t.text == '{':
                depth += 1
            elif t.kind == 'punct' and t.text == '}':
                depth -= 1
            elif depth == 0 and t.kind == 'ident' and t.text == kw and self.toks[i + 1].text == name:
                s = i
                while self.toks[s - 1].text in ('pub', 'crate') or (self.toks[s - 1].text in '()' and self.toks[s - 2].text in ('pub', 'crate', '(')):
                    s -= 1
                j = i
                if kw == 'const':
                    # up to the `;` that is not inside brackets (array types `[T; N]` contain one)
                    nest = 0
                    while not (self.toks[j].text == ';' and nest == 0):
                        if self.toks[j].text in ('(', '[', '{'):
                            nest += 1
                        elif self.toks[j].text in (')', ']', '}'):
                            nest -= 1
                        j += 1
                    return self.toks[s:j + 1]
                while self.toks[j].text not in ('{', ';'):
                    j += 1
                if self.toks[j].text == '{':
                    j = match_close(self.toks, j)
                return self.toks[s:j + 1]
            i += 1
        raise ExtractionError(f'{kw} `{module}::{name}` not found in the expanded crate')

    def find_const_anywhere(self, name):
        """[(module path, item tokens)] of every `const <name>` in the crate (rule D4, constants imported with `use`)"""
        out = []
        toks = self.toks
        depth_mods = []
        i, n = 0, len(toks)
        stack = []      # (module name, brace depth at which it closes)
        depth = 0
        while i < n:
            t = toks[i]
            if t.kind == 'ident' and t.text == 'mod' and i + 2 < n and toks[i + 1].kind == 'ident' and toks[i + 2].text == '{':
                stack.append((toks[i + 1].text, depth))
                depth += 1
                i += 3
                continue
            if t.kind == 'punct' and t.text == '{':
                depth += 1
            elif t.kind == 'punct' and t.text == '}':
                depth -= 1
                if stack and stack[-1][1] == depth:
                    stack.pop()
            elif t.kind == 'ident' and t.text == 'const' and i + 2 < n and toks[i + 1].kind == 'ident' and toks[i + 1].text == name and toks[i + 2].text == ':':
                # module-level constant only (brace depth == number of enclosing modules)
                if depth == len(stack):
                    j = i
                    while j > 0 and toks[j - 1].kind in ('ident',) and toks[j - 1].text in ('pub', 'crate') or (j > 0 and toks[j - 1].text in ('(', ')')):
                        j -= 1
                    k = i
                    nest = 0
                    while k < n and not (toks[k].text == ';' and nest == 0):
                        if toks[k].text in ('(', '[', '{'):
                            nest += 1
                        elif toks[k].text in (')', ']', '}'):
                            nest -= 1
                        k += 1
                    if not (stack and stack[0][0].startswith('__dep_')):
                        out.append(('::'.join(m for m, _ in stack), toks[j:k + 1]))
            i += 1
        return out

    def has_impl(self, module, trait_re, ty):
        lo, hi = self._module_range(module)
        txt = join(self.toks[lo:hi])
        return re.search(r'impl\s*(<[^>]*>)?\s*' + trait_re + r'\s+for\s+' + re.escape(ty) + r'\b', txt) is not None


# --------------------------------------------------------------------------------------------
# line tree
# --------------------------------------------------------------------------------------------
class Node:
    """A canonical line; if it ends with `{` it owns `children` and a `closer` line (which may itself
    open another block: `} else {`)."""

    def __init__(self, text):
        self.text = text
        self.children = None  # list[Node] when block
        self.closer = None  # Node (text starts with `}`), may have children if it re-opens

    def is_block(self):
        return self.children is not None

    def chain(self):
        """self and the chained closers (if/else chain): list of Nodes"""
        out = [self]
        c = self.closer
        while c is not None:
            out.append(c)
            c = c.closer
        return out

    def clone_text(self, text):
        n = Node(text)
        n.children, n.closer = self.children, self.closer
        return n


def build_tree(lines):
    """lines: list of (indent, text) -> list[Node]"""
    pos = 0

    def parse_block():
        nonlocal pos
        out = []
        while pos < len(lines):
            txt = lines[pos][1]
            if txt.startswith('}'):
                return out
            pos += 1
            node = Node(txt)
            out.append(node)
            cur = node
            while cur.text.endswith('{'):
                cur.children = parse_block()
                if pos >= len(lines):
                    raise ExtractionError('unbalanced block structure')
                closer = Node(lines[pos][1])
                pos += 1
                cur.closer = closer
                cur = closer
        return out

    nodes = parse_block()
    if pos != len(lines):
        raise ExtractionError('unbalanced block structure (stray closing brace)')
    return nodes


def flatten(nodes, indent=0, out=None):
    if out is None:
        out = []
    for n in nodes:
        out.append((indent, n.text))
        cur = n
        while cur.is_block():
            flatten(cur.children, indent + 1, out)
            out.append((indent, cur.closer.text))
            cur = cur.closer
    return out


def walk(nodes):
    """pre-order over all nodes (openers and plain statements; closers that re-open are visited too)"""
    for n in nodes:
        yield n
        cur = n
        while cur.is_block():
            yield from walk(cur.children)
            cur = cur.closer
            if cur.is_block():
                yield cur


# --------------------------------------------------------------------------------------------
# rules
# --------------------------------------------------------------------------------------------
LOOP_RE = re.compile(r'(for|while|loop)\b')


class RuleLog:
    def __init__(self):
        self.counts = {}

    def hit(self, rule, n=1):
        if n:
            self.counts[rule] = self.counts.get(rule, 0) + n


# Global text rules: (rule id, regex, replacement).  Applied to every canonical line of a body.
GLOBAL_RULES = [
    # R2: facade paths
    ('R2', r'\bstd::io::Error::new\(', 'vio::Error::new('),
    ('R2', r'(?<![\w:])Error::new\(', 'vio::Error::new('),
    ('R2', r'\bstd::io::ErrorKind::', 'vio::ErrorKind::'),
    ('R2', r'(?<![\w:])ErrorKind::', 'vio::ErrorKind::'),
    ('R2', r'\bstd::io::SeekFrom::', 'vio::SeekFrom::'),
    ('R2', r'\bfutures::io::SeekFrom::', 'vio::SeekFrom::'),
    ('R2', r'(?<![\w:])SeekFrom::', 'vio::SeekFrom::'),
    ('R2', r'\bstd::ops::Bound::', 'vio::Bound::'),
    ('R2', r', RandomState>', '>'),
    ('R2', r'\bJSONMap<String, JSONValue>', 'JsonMap'),
    ('R2', r'\bJSONMap::new\(\)', 'JsonMap::new()'),
    ('R2', r'\bJSONValue\b', 'JsonValue'),
    # D2: async erasure
    ('D2', r'\.await\b', ''),
    ('D2', r'\bread_varint_async\b', 'read_varint'),
    ('D2', r'\bwrite_varint_async\b', 'write_varint'),
    # R7b: fold back compiler-expanded vec!
    ('R7b', r'::alloc::vec::from_elem\(([^,()]+), ([^()]+(?:\([^()]*\))?[^()]*)\)', r'vio::vec_from_elem(\1, \2)'),
    ('R7b', r'<\[_\]>::into_vec\(::alloc::boxed::box_new\(\[([^\[\]]*)\]\)\)', r'vec![\1]'),
    # R7c: an expanded `format!(..)` used as an error message: the text of a message is irrelevant to every contract
    ('R7c', r'(?:&)?::alloc::__export::must_use\(\{ ::alloc::fmt::format\(format_args!\((?:[^()]|\((?:[^()]|\([^()]*\))*\))*\)\) \}\)', '"(formatted message)"'),
]


def apply_text_rules(nodes, rules, log):
    for n in walk(nodes):
        for rid, pat, rep in rules:
            new, k = re.subn(pat, rep, n.text)
            if k:
                log.hit(rid, k)
                n.text = new
    # closers that do not re-open are not visited by walk(): visit them too
    def closers(ns):
        for n in ns:
            cur = n
            while cur.is_block():
                closers(cur.children)
                cur = cur.closer
                for rid, pat, rep in rules:
                    new, k = re.subn(pat, rep, cur.text)
                    if k:
                        log.hit(rid, k)
                        cur.text = new
    closers(nodes)


def ends_with_continue(children):
    return bool(children) and not children[-1].is_block() and children[-1].text == 'continue;'


def has_continue(nodes):
    """does `continue` occur in these statements, not counting nested loops (which own their continues)?"""
    for n in nodes:
        if n.is_block() and LOOP_RE.match(n.text):
            continue
        if not n.is_block():
            if re.search(r'\bcontinue\b', n.text):
                return True
            continue
        cur = n
        while cur.is_block():
            if re.search(r'\bcontinue\b', cur.text) or has_continue(cur.children):
                return True
            cur = cur.closer
    return False


def elim_continue(stmts, log):
    """R5 (pure restructuring).  `stmts` are in tail position of a `for` body: nothing of the iteration
    runs after them, so `continue` == "fall off the end".
       continue;                                  => (dropped, together with the dead code after it)
       if C { A; continue; } REST                 => if C { A' } else { REST' }
       let P = E else { continue; }; REST         => if let P = E { REST' }
       if .. { .. } else { .. }   (last statement) => each branch restructured in tail position
    Any other position of `continue` is an extraction error (exit 2), never silently accepted."""
    out = []
    for idx, s in enumerate(stmts):
        rest = stmts[idx + 1:]
        if not s.is_block():
            if s.text == 'continue;':
                log.hit('R5')
                return out
            if re.search(r'\bcontinue\b', s.text):
                raise ExtractionError('R5: `continue` inside an expression: ' + s.text)
            out.append(s)
            continue
        if LOOP_RE.match(s.text):
            restructure_for_loops([s], log)
            out.append(s)
            continue
        if not has_continue([s]):
            restructure_for_loops([s], log)
            out.append(s)
            continue
        m = re.match(r'let (.*) else \{$', s.text)
        if m and len(s.children) == 1 and s.children[0].text == 'continue;' and s.closer.text == '};':
            log.hit('R5')
            new = Node('if let ' + m.group(1) + ' {')
            new.children = elim_continue(rest, log)
            new.closer = Node('}')
            out.append(new)
            return out
        if s.text.startswith('if ') and s.closer.text == '}' and ends_with_continue(s.children):
            log.hit('R5')
            new = Node(s.text)
            new.children = elim_continue(s.children[:-1], log)
            els = Node('} else {')
            els.children = elim_continue(rest, log)
            els.closer = Node('}')
            new.closer = els
            out.append(new)
            return out
        if s.text.startswith('if ') and not rest:
            cur = s
            while cur.is_block():
                cur.children = elim_continue(cur.children, log)
                cur = cur.closer
            out.append(s)
            return out
        raise ExtractionError('R5: `continue` in a position the restructuring rule does not cover: ' + s.text)
    return out


def restructure_for_loops(nodes, log):
    """apply R5 to the body of every `for` loop that contains `continue`
    (Verus: 'for-loops do not yet support continue'); `while`/`loop` bodies keep theirs."""
    for n in nodes:
        if not n.is_block():
            continue
        cur = n
        first = True
        while cur.is_block():
            if first and cur.text.startswith('for ') and has_continue(cur.children):
                cur.children = elim_continue(cur.children, log)
            else:
                restructure_for_loops(cur.children, log)
            first = False
            cur = cur.closer


def rule_for_continue(nodes, log):
    restructure_for_loops(nodes, log)


def rule_enumerate(nodes, log):
    """R4: `for (i, x) in E.into_iter().enumerate() {`  =>  `for i in 0..vio::len(E) {` + `let x = vio::at(E, i);`"""
    for n in walk(nodes):
        if not n.is_block():
            continue
        m = re.match(r'for \((\w+), (\w+)\) in (.+?)\.into_iter\(\)\.enumerate\(\) \{$', n.text)
        if m:
            i, x, e = m.groups()
            n.text = f'for {i} in 0..seq_len({e}) {{'
            n.children.insert(0, Node(f'let {x} = seq_at({e}, {i});'))
            log.hit('R4')


# --------------------------------------------------------------------------------------------
# signature handling
# --------------------------------------------------------------------------------------------
def split_top(toks, sep=','):
    parts, cur, depth, adepth = [], [], 0, 0
    for t in toks:
        if t.kind == 'punct' and t.text in '([{':
            depth += 1
        elif t.kind == 'punct' and t.text in ')]}':
            depth -= 1
        elif t.kind == 'punct' and t.text == '<':
            adepth += 1
        elif t.kind == 'punct' and t.text == '>':
            adepth = max(0, adepth - 1)
        elif t.kind == 'punct' and t.text == '>>':
            adepth = max(0, adepth - 2)
        if t.kind == 'punct' and t.text == sep and depth == 0 and adepth == 0:
            parts.append(cur)
            cur = []
        else:
            cur.append(t)
    if cur:
        parts.append(cur)
    return parts


def param_names(sig_toks):
    """names (or patterns) of the parameters of a `fn` signature token list"""
    i = 0
    while not (sig_toks[i].kind == 'ident' and sig_toks[i].text == 'fn'):
        i += 1
    j = i
    while sig_toks[j].text != '(':
        j += 1
    e = match_close(sig_toks, j)
    names = []
    for p in split_top(sig_toks[j + 1:e]):
        # strip attributes / mut
        txt = []
        depth = 0
        for t in p:
            if t.kind == 'punct' and t.text in '([':
                depth += 1
            if t.kind == 'punct' and t.text in ')]':
                depth -= 1
            if t.kind == 'punct' and t.text == ':' and depth == 0:
                break
            txt.append(t)
        name = join([t for t in txt if t.text not in ('mut', '&', 'Tracked', 'Ghost') and t.kind != 'lifetime'])
        names.append(name.replace(' ', ''))
    ret = join(sig_toks[e + 1:]).strip()
    return names, ret


# --------------------------------------------------------------------------------------------
# sidecar parsing and weaving
# --------------------------------------------------------------------------------------------
class Sidecar:
    """Parsed `//@fn` section of a template."""

    def __init__(self, header, lines, origin):
        # header: `module name [impl=/re/] [as=newname]`
        parts = header.split()
        if len(parts) < 2:
            raise ExtractionError(f'{origin}: //@fn needs `<module> <name>`')
        self.module = '' if parts[0] in ('-', 'crate') else parts[0]
        self.name = parts[1]
        self.impl_re = None
        self.opts = {}
        for p in parts[2:]:
            k, _, v = p.partition('=')
            self.opts[k] = v
        self.impl_re = self.opts.get('impl')
        self.origin = origin
        self.sig = []
        self.loops = {}  # ordinal -> dict(iter=, lines=[])
        self.ins = []  # (where, nth, regex, [lines])
        self.rewrites = []  # (regex, replacement, rule id)
        self.param_map = {}
        self.prologue = []
        self.epilogue = []
        self.rules = set()
        cur = None
        for ln in lines:
            s = ln.strip()
            if s.startswith('//@'):
                d = s[3:].strip()
                kw, _, arg = d.partition(' ')
                arg = arg.strip()
                if kw == 'sig':
                    cur = self.sig
                elif kw == 'loop':
                    a = arg.split()
                    cur = []
                    self.loops[int(a[0])] = {'iter': a[1] if len(a) > 1 else None, 'lines': cur}
                elif kw in ('before', 'after', 'replace', 'inside_end', 'inside_start'):
                    m = re.match(r'(?:L(\d+)\s+)?(?:(\d+)\s+)?/(.*)/\s*$', arg)
                    if not m:
                        raise ExtractionError(f'{origin}: bad anchor `{d}`')
                    cur = []
                    self.ins.append((kw, int(m.group(2) or 1), m.group(3), cur, int(m.group(1)) if m.group(1) else None))
                elif kw == 'rewrite':
                    m = re.match(r'(\w+)\s+/(.*)/\s*->\s*(.*)$', arg)
                    if not m:
                        raise ExtractionError(f'{origin}: bad rewrite `{d}`')
                    self.rewrites.append((m.group(2), m.group(3), m.group(1)))
                    cur = None
                elif kw == 'param':
                    a, _, b = arg.partition('=')
                    self.param_map[a.strip().replace(' ', '')] = b.strip()
                    cur = None
                elif kw == 'prologue':
                    cur = self.prologue
                elif kw == 'epilogue':
                    cur = self.epilogue
                elif kw == 'rule':
                    self.rules.update(arg.split())
                    cur = None
                else:
                    raise ExtractionError(f'{origin}: unknown directive `{d}`')
                continue
            if cur is not None:
                cur.append(ln.rstrip('\n'))


def strip_attrs(toks, log=None):
    """D1: drop `#[...]` / `#![...]` attributes"""
    out = []
    i = 0
    while i < len(toks):
        t = toks[i]
        if t.kind == 'punct' and t.text == '#':
            j = i + 1
            if j < len(toks) and toks[j].text == '!':
                j += 1
            if j < len(toks) and toks[j].text == '[':
                e = match_close(toks, j)
                if log is not None:
                    log.hit('D1')
                i = e + 1
                if i < len(toks):
                    toks[i].sp = True
                continue
        out.append(t)
        i += 1
    return out


def first_code_line(text):
    for ln in text.split('\n'):
        if not ln.startswith('//#'):
            return ln
    return ''


# --------------------------------------------------------------------------------------------
# R10: alpha-renaming of local variables back to the names the sidecar was written against
# --------------------------------------------------------------------------------------------
_KEYWORDS = {'mut', 'ref', 'let', 'for', 'in', 'if', 'else', 'match', 'while', 'loop', 'return', 'break', 'continue', 'as', 'move', 'async',
             'await', 'fn', 'impl', 'dyn', 'where', 'true', 'false', 'self', 'Self', 'super', 'crate', 'pub', 'use', 'const', 'static', 'struct', 'enum', 'type',
             'unsafe', 'box', '_'}


def binders(toks):
    """ordered list of the local names bound by `let` / `for` patterns of a function body (snake_case identifiers that are not
    followed by `(`, `{` or `::`, i.e. not constructors or paths)"""
    out = []
    i, n = 0, len(toks)
    while i < n:
        t = toks[i]
        if t.kind == 'ident' and t.text in ('let', 'for') and not (i > 0 and toks[i - 1].text == '.'):
            j = i + 1
            depth = 0
            while j < n:
                u = toks[j]
                if u.kind == 'punct' and u.text in '([{':
                    depth += 1
                elif u.kind == 'punct' and u.text in ')]}':
                    depth -= 1
                    if depth < 0:
                        break
                if depth == 0 and ((u.kind == 'punct' and u.text in ('=', ';', ':')) or (u.kind == 'ident' and u.text in ('in', 'else'))):
                    break
                if u.kind == 'ident' and u.text not in _KEYWORDS and (u.text[0].islower() or u.text[0] == '_') \
                        and not (j + 1 < n and toks[j + 1].kind == 'punct' and toks[j + 1].text in ('(', '{', '::', '!')) \
                        and not (toks[j - 1].kind == 'punct' and toks[j - 1].text in ('::', '.')):
                    out.append(u.text)
                j += 1
            i = j
            continue
        i += 1
    return out


def _param_name_idx(sig_toks):
    """indices of the identifier tokens that NAME the parameters of a `fn` signature (pattern side of every parameter)"""
    i = 0
    while not (sig_toks[i].kind == 'ident' and sig_toks[i].text == 'fn'):
        i += 1
    j = i
    while sig_toks[j].text != '(':
        j += 1
    e = match_close(sig_toks, j)
    out = []
    depth = 0
    adepth = 0
    in_pat = True
    for k in range(j + 1, e):
        t = sig_toks[k]
        if t.kind == 'punct' and t.text in '([{':
            depth += 1
        elif t.kind == 'punct' and t.text in ')]}':
            depth -= 1
        elif t.kind == 'punct' and t.text == '<':
            adepth += 1
        elif t.kind == 'punct' and t.text == '>':
            adepth = max(0, adepth - 1)
        elif t.kind == 'punct' and t.text == '>>':
            adepth = max(0, adepth - 2)
        if depth == 0 and adepth == 0 and t.kind == 'punct' and t.text == ',':
            in_pat = True
            continue
        if depth == 0 and t.kind == 'punct' and t.text == ':':
            in_pat = False
            continue
        if in_pat and t.kind == 'ident' and t.text not in _KEYWORDS and (t.text[0].islower() or t.text[0] == '_'):
            out.append(k)
    return out


def _norm_sig(toks):
    return re.sub(r'^(pub(\([a-z]+\))? )?', '', re.sub(r'\s+', ' ', join(toks)).strip())


def param_renaming(sig_toks, recorded_sig):
    """R10 for parameters: if the signature differs from the recorded one ONLY in the names of parameters, the list of
    (current name, recorded name) pairs in parameter order; otherwise None."""
    try:
        rec_toks = lex(recorded_sig)
        a, b = _param_name_idx(sig_toks), _param_name_idx(rec_toks)
    except Exception:  # noqa: BLE001
        return None
    if len(a) != len(b):
        return None
    ren = list(sig_toks)
    for x, y in zip(a, b):
        ren[x] = Tok(ren[x].kind, rec_toks[y].text, ren[x].sp)
    if _norm_sig(ren) != _norm_sig(rec_toks):
        return None
    return [(sig_toks[x].text, rec_toks[y].text) for x, y in zip(a, b)]


def alpha_normalise(toks, expected, log, param_pairs=None):
    """If the function binds the same NUMBER of locals as when the sidecar was written but under other names, rename them back
    (token-wise; field accesses, paths and struct-literal field names are left alone).  Anything unexpected: no change."""
    cur = binders(toks)
    if expected is None:
        expected = list(cur)
    if param_pairs:                      # parameters are binders too (renamed parameters: see param_renaming)
        cur = [c for c, _ in param_pairs] + cur
        expected = [e for _, e in param_pairs] + list(expected)
    if not expected or cur == expected or len(cur) != len(expected):
        return toks
    full = {}
    for c, e in zip(cur, expected):
        if full.get(c, e) != e:
            return toks                 # one name, two targets (also: kept at one binder, renamed at another): not a pure renaming
        full[c] = e
    if len(set(full.values())) != len(full):
        return toks                     # two names, one target
    mp = {c: e for c, e in full.items() if c != e}
    idents = {t.text for k, t in enumerate(toks) if t.kind == 'ident' and not _field_position(toks, k)}   # field / method names cannot capture a local
    for c, e in mp.items():
        if e in idents and e not in mp:   # the target name is in use for something that is not renamed away: renaming could capture
            return toks
    out = []
    for k, t in enumerate(toks):
        if t.kind == 'ident' and t.text in mp:
            if not _field_position(toks, k):
                out.append(Tok(t.kind, mp[t.text], t.sp))
                continue
        out.append(t)
    log.hit('R10', len(mp))
    return out


def _field_position(toks, k):
    """token k is a field / method / path-segment name (after `.` or `::`) or the field name of a struct literal (`{ name: ..` / `, name: ..`
    outside a `let` pattern): such an occurrence is not a use of a local variable"""
    prev = toks[k - 1] if k > 0 else None
    nxt = toks[k + 1] if k + 1 < len(toks) else None
    after_dot = prev is not None and prev.kind == 'punct' and prev.text in ('.', '::')
    field_name = nxt is not None and nxt.kind == 'punct' and nxt.text == ':' and prev is not None and prev.kind == 'punct' and prev.text in ('{', ',') \
        and not _in_let_pattern(toks, k)
    return after_dot or field_name


def _in_let_pattern(toks, k):
    """is token k inside the pattern of a `let` (between `let` and the `=`/`;` at depth 0)?"""
    depth = 0
    j = k - 1
    while j >= 0:
        u = toks[j]
        if u.kind == 'punct' and u.text in ')]}':
            depth += 1
        elif u.kind == 'punct' and u.text in '([{':
            depth -= 1
        elif depth <= 0 and u.kind == 'punct' and u.text in ('=', ';'):
            return False
        elif u.kind == 'ident' and u.text == 'let':
            return True
        j -= 1
    return False


def weave(fn, sc, log, lost, unit_rewrites=(), expected_locals=None, param_pairs=None):
    """fn: dict from Crate.find_fn; sc: Sidecar.  Returns list of text lines (Verus)."""
    btoks = strip_attrs(fn['body'], log)
    renamed_params = bool(param_pairs) and any(c != e for c, e in param_pairs)
    if expected_locals or renamed_params:
        before_r10 = btoks
        btoks = alpha_normalise(btoks, expected_locals, log, param_pairs if renamed_params else None)
        if renamed_params:
            if btoks is before_r10:
                raise ExtractionError(f'signature of `{sc.name}` changed: parameters renamed {[(c, e) for c, e in param_pairs if c != e]} and the body '
                                      f'cannot be renamed back consistently')
            sig = list(fn['sig'])
            for k, (c, e) in zip(_param_name_idx(sig), param_pairs):
                sig[k] = Tok(sig[k].kind, e, sig[k].sp)
            fn = dict(fn, sig=sig)
    # D2: `#[async_recursion]` wraps the body in `Box::pin(async move { BODY })`
    if len(btoks) > 9 and [t.text for t in btoks[:7]] == ['Box', '::', 'pin', '(', 'async', 'move', '{'] \
            and btoks[-1].text == ')' and btoks[-2].text == '}' and match_close(btoks, 6) == len(btoks) - 2:
        btoks = btoks[7:-2]
        log.hit('D2')
    lines = canon_lines(btoks)
    nodes = build_tree(lines)
    rules = list(GLOBAL_RULES)
    apply_text_rules(nodes, rules, log)
    for pat, rep, rid in unit_rewrites:
        apply_text_rules(nodes, [(rid, pat, rep)], log)
    nodes = [n for n in nodes if n.text.strip() != '']
    for pat, rep, rid in sc.rewrites:
        before = dict(log.counts)
        apply_text_rules(nodes, [(rid, pat, rep)], log)
        if log.counts.get(rid, 0) == before.get(rid, 0):
            lost.append(f'{sc.name}: rewrite /{pat}/ matched nothing')
    rule_enumerate(nodes, log)
    rule_for_continue(nodes, log)

    # ---- signature check (R3)
    names, ret = param_names(fn['sig'])
    sig_text = '\n'.join(sc.sig)
    try:
        sc_names, _ = param_names(lex(sig_text))
    except Exception as e:  # noqa: BLE001
        raise ExtractionError(f'{sc.origin}: cannot parse sidecar signature of {sc.name}: {e}')
    mapped = [sc.param_map.get(n, n) for n in names]
    mapped = [m for m in mapped if m != '-']
    if mapped != sc_names:
        raise ExtractionError(f'signature of `{sc.name}` changed: parameters in /repo {names} (mapped {mapped}) '
                              f'!= sidecar {sc_names}')
    log.hit('R3')
    is_async = any(t.text == 'async' for t in fn['sig'][:6])
    if is_async:
        log.hit('D2')

    # ---- loops
    ordinal = 0
    loop_nodes = {}
    for n in walk(nodes):
        if n.is_block() and LOOP_RE.match(n.text):
            ordinal += 1
            loop_nodes[ordinal] = n
            spec = sc.loops.get(ordinal)
            if spec is None:
                continue
            hdr = n.text[:-1].rstrip()
            if spec['iter'] and hdr.startswith('for '):
                m = re.match(r'for (.+?) in (.+)$', hdr)
                hdr = f'for {m.group(1)} in {spec["iter"]}: {m.group(2)}'
            n.text = hdr + '\n//# @props\n' + '\n'.join(spec['lines']) + '\n//# @auto\n{'
            spec['used'] = True
    for k, spec in sc.loops.items():
        if not spec.get('used'):
            lost.append(f'{sc.name}: loop #{k} not found (the function has {ordinal} loops)')

    # ---- insertions
    for where, nth, pat, text, scope in sc.ins:
        rx = re.compile(pat)
        hits = []

        def scan(ns):
            for idx, n in enumerate(ns):
                first = first_code_line(n.text)
                if rx.search(first):
                    hits.append((ns, idx, n))
                cur = n
                while cur.is_block():
                    scan(cur.children)
                    cur = cur.closer
        if scope is None:
            scan(nodes)
        elif scope in loop_nodes:
            scan(loop_nodes[scope].children)
        if len(hits) < nth:
            lost.append(f'{sc.name}: anchor #{nth} /{pat}/ not found ({len(hits)} matches)')
            continue
        ns, idx, n = hits[nth - 1]
        if where == 'replace':
            # R9 is a pure restructuring: the sidecar must not restate the statement it wraps.  `$0` = the statement as it is in
            # /repo (after the rewrites), `$OK` = the argument E of `Ok(E)` / `return Ok(E);`.  A replacement that uses neither would
            # substitute hand-written text for repository code and is refused.
            stmt = ' '.join(t.strip() for _, t in flatten([n]) if not t.strip().startswith('//#'))
            m_ok = re.match(r'^(?:return\s+)?Ok\((.*)\)\s*;?$', stmt, re.S)
            joined = '\n'.join(text)
            if '$OK' in joined:
                if not m_ok:
                    lost.append(f'{sc.name}: //@replace uses $OK but the statement `{stmt[:60]}` is not `Ok(..)`')
                    continue
                text = [ln.replace('$OK', m_ok.group(1)) for ln in text]
            elif '$0' in joined:
                text = [ln.replace('$0', stmt) for ln in text]
            else:
                raise ExtractionError(f'{sc.origin}: //@replace /{pat}/ must contain $0 or $OK (the replaced statement itself is always taken from /repo)')
        new = Node('//# @props\n' + '\n'.join(text) + '\n//# @auto')
        if where == 'before':
            ns.insert(idx, new)
        elif where == 'after':
            ns.insert(idx + 1, new)
        elif where == 'replace':
            ns[idx] = new
        elif where == 'inside_start':
            if not n.is_block():
                lost.append(f'{sc.name}: anchor /{pat}/ is not a block')
                continue
            n.children.insert(0, new)
        elif where == 'inside_end':
            if not n.is_block():
                lost.append(f'{sc.name}: anchor /{pat}/ is not a block')
                continue
            n.children.append(new)

    body = flatten(nodes)
    out = ['//# @props'] + list(sc.sig)
    out.append('{')
    out.append('//# @auto')
    out.extend(sc.prologue)
    for ind, txt in body:
        for sub in txt.split('\n'):
            out.append('    ' * (ind + 1) + sub)
    out.extend(sc.epilogue)
    out.append('}')
    return out


def item_text(toks):
    """struct/enum/const item, one field per line; D3: visibility normalised to `pub` (items and named fields)"""
    kw_i = next(i for i, t in enumerate(toks) if t.kind == 'ident' and t.text in ('struct', 'enum', 'const', 'static', 'type'))
    kw = toks[kw_i].text
    head = toks[kw_i:]
    try:
        b = next(i for i, t in enumerate(head) if t.text == '{')
    except StopIteration:
        return 'pub ' + join(head)
    e = match_close(head, b)
    fields = split_top(head[b + 1:e])
    out = ['pub ' + join(head[:b]) + ' {']
    for f in fields:
        if not f:
            continue
        f = [t for t in f]
        # drop existing visibility
        while f and (f[0].text in ('pub', 'crate') or f[0].text in '()' and False):
            f = f[1:]
            if f and f[0].text == '(':
                c = match_close(f, 0)
                f = f[c + 1:]
        txt = join(f)
        txt = re.sub(r'^\s+', '', txt)
        if kw == 'struct':
            txt = 'pub ' + txt
        out.append('    ' + txt + ',')
    out.append('}')
    return '\n'.join(out)
