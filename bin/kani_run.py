"""Kani harness groups: generate the harness crate from /verif/kani + files extracted from /repo, run `cargo kani`,
parse per-harness verdicts, fetch concrete counterexamples with --concrete-playback."""
import hashlib
import json
import os
import re
import shutil
import subprocess
import sys
import time

VERIF = os.path.dirname(os.path.dirname(os.path.abspath(__file__)))
sys.path.insert(0, os.path.join(VERIF, 'extract'))
import extractor as X  # noqa: E402

CACHE = os.path.join(VERIF, '.cache')


def zoom_harnesses(zooms, adj_zooms, child_zooms):
    out = ['// GENERATED: per-zoom harnesses (z is a literal, so every loop bound is concrete)',
           'use crate::spec::*;', 'use pmtiles2::util::{tile_id, zxy};', '']
    names = []
    for z in zooms:
        out.append(f'''#[kani::proof]
#[kani::unwind(34)]
fn h1_z{z}() {{
    let z: u8 = {z};
    let x: u64 = kani::any();
    let y: u64 = kani::any();
    kani::assume(x < (1u64 << z) && y < (1u64 << z));
    let id = tile_id(z, x, y);
    assert!(id == spec_id(z, x, y));
    let (z2, x2, y2) = zxy(id).unwrap();
    assert!(z2 == z && x2 == x && y2 == y);
}}
#[kani::proof]
#[kani::unwind(34)]
fn h2_z{z}() {{
    let z: u8 = {z};
    let id: u64 = kani::any();
    kani::assume(base_id(z) <= id && id < base_id(z + 1));
    let (z2, x, y) = zxy(id).unwrap();
    assert!(z2 == z);
    assert!(x < (1u64 << z) && y < (1u64 << z));
    assert!(tile_id(z2, x, y) == id);
}}''')
        names += [(f'h1_z{z}', f'util::tile_id+zxy (zoom {z}, all x,y)'), (f'h2_z{z}', f'util::zxy+tile_id (zoom {z}, all ids of the block)')]
    for z in adj_zooms:
        out.append(f'''#[kani::proof]
#[kani::unwind(34)]
fn adj_z{z}() {{
    let z: u8 = {z};
    let id: u64 = kani::any();
    kani::assume(base_id(z) <= id && id < base_id(z + 1) - 1);
    let (_, x1, y1) = zxy(id).unwrap();
    let (_, x2, y2) = zxy(id + 1).unwrap();
    let dx = if x1 > x2 {{ x1 - x2 }} else {{ x2 - x1 }};
    let dy = if y1 > y2 {{ y1 - y2 }} else {{ y2 - y1 }};
    assert!(dx + dy == 1);
}}''')
        names.append((f'adj_z{z}', f'util::zxy edge-adjacency of consecutive ids (zoom {z}; bounded in z)'))
    for z in child_zooms:
        out.append(f'''#[kani::proof]
#[kani::unwind(34)]
fn child_z{z}() {{
    let z: u8 = {z};
    let x: u64 = kani::any();
    let y: u64 = kani::any();
    let a: u64 = kani::any();
    let b: u64 = kani::any();
    kani::assume(x < (1u64 << z) && y < (1u64 << z) && a < 2 && b < 2);
    let d = tile_id(z, x, y) - base_id(z);
    let c = tile_id(z + 1, 2 * x + a, 2 * y + b) - base_id(z + 1);
    assert!(c / 4 == d);
}}''')
        names.append((f'child_z{z}', f'util::tile_id children occupy one aligned block of four (zoom {z}; bounded in z)'))
    return '\n'.join(out) + '\n', names


def gen_latlng(crate):
    """cut the two conversion expressions out of LatLng::{read_lat_lon, write_lat_lon}"""
    rd = crate.find_fn('header::lat_lng', 'read_lat_lon')
    wr = crate.find_fn('header::lat_lng', 'write_lat_lon')
    rtxt = X.join(X.strip_attrs(rd['body']))
    wtxt = X.join(X.strip_attrs(wr['body']))
    const = X.join(X.strip_attrs(crate.find_item('header::lat_lng', 'const', 'LAT_LONG_FACTOR')))
    m1 = re.search(r'let \(rest, value\) = i32::read\(rest, \(\)\)\?;\s*Ok\(\(rest, (.*)\)\)\s*$', rtxt)
    m2 = re.search(r'^let value = (.*?);\s*value\.write\(output, \(\)\)\s*$', wtxt)
    if not m1 or not m2:
        raise X.ExtractionError('LatLng::read_lat_lon / write_lat_lon no longer have the shape `let (rest, value) = i32::read(..)?; '
                                'Ok((rest, EXPR))` / `let value = EXPR; value.write(..)`: ' + rtxt[:200] + ' | ' + wtxt[:200])
    return ('// GENERATED from /repo src/header/lat_lng.rs (expanded): the two conversion expressions, verbatim\n'
            f'pub {const}\n'
            f'pub fn r(value: i32) -> f64 {{ {m1.group(1)} }}\n'
            f'pub fn w(field: f64) -> i32 {{ {m2.group(1)} }}\n')


GROUPS = {
    # group -> (static harnesses [(name, target)], needs zooms?)
    'varint': [('v1_write_u64', 'integer_encoding::VarIntWriter::write_varint::<u64>'), ('v2_write_u32', 'integer_encoding::VarIntWriter::write_varint::<u32>'),
               ('v5_roundtrip_u64', 'integer_encoding write_varint+read_varint')],
    'tile_id': [('h3_zxy_total', 'util::zxy (every u64 id)'), ('h5_blocks_contiguous', 'util::tile_id block starts')],
    'dirfind': [('d1_find_entry', 'directory::Directory::find_entry_for_tile_id (<= 3 symbolic entries; BOUNDED)')],
    'latlng': [('f1_nearest', 'header::lat_lng::LatLng::write_lat_lon (conversion expression)'),
               ('f2_identity_slice', 'header::lat_lng::LatLng::{read_lat_lon, write_lat_lon} (conversion expressions, 2^16 slice)')],
}


def prepare(repo, tier, crate):
    fp = hashlib.sha256((os.path.realpath(repo) + tier).encode()).hexdigest()[:10]
    d = os.path.join(CACHE, f'kani-crate-{fp}')
    os.makedirs(os.path.join(d, 'src'), exist_ok=True)
    shutil.rmtree(os.path.join(d, 'src'), ignore_errors=True)
    shutil.copytree(os.path.join(VERIF, 'kani', 'src'), os.path.join(d, 'src'))
    t = open(os.path.join(VERIF, 'kani', 'Cargo.toml.in')).read().replace('@REPO@', os.path.realpath(repo))
    open(os.path.join(d, 'Cargo.toml'), 'w').write(t)
    os.makedirs(os.path.join(d, '.cargo'), exist_ok=True)
    open(os.path.join(d, '.cargo', 'config.toml'), 'w').write('[net]\noffline = true\n')
    # lock file: resolve offline once (registry cache), then reuse
    lock = os.path.join(CACHE, 'kani-Cargo.lock')
    if os.path.exists(lock):
        shutil.copy(lock, os.path.join(d, 'Cargo.lock'))
    if tier == 'thorough':
        zooms, adj, child = list(range(0, 32)), list(range(1, 9)), list(range(0, 8))
    else:
        zooms, adj, child = list(range(0, 5)), [1, 2], [0, 1, 2]   # quick: the Verus unit tile_id covers every zoom; Kani re-checks zooms 0..=4 bit-precisely
    ztxt, znames = zoom_harnesses(zooms, adj, child)
    open(os.path.join(d, 'src', 'gen_zoom.rs'), 'w').write(ztxt)
    open(os.path.join(d, 'src', 'gen_latlng.rs'), 'w').write(gen_latlng(crate))
    return d, znames


def qualify(n):
    if n.startswith('v'):
        return 'varint::' + n
    if n.startswith('f'):
        return 'latlng::' + n
    if n.startswith('d1_'):
        return 'dirfind::' + n
    if n in ('h3_zxy_total', 'h5_blocks_contiguous'):
        return 'tile_id::' + n
    return 'gen_zoom::' + n


def run_harnesses(d, names, jobs, timeout):
    env = dict(os.environ, CARGO_NET_OFFLINE='true', CARGO_TARGET_DIR=os.path.join(CACHE, 'kani-target'))
    cmd = ['cargo', 'kani', '-j', str(jobs), '--output-format', 'terse', '--exact']
    for n in names:
        cmd += ['--harness', qualify(n)]
    t0 = time.time()
    logf = os.path.join(d, f'kani-{os.getpid()}.log')
    with open(logf, 'w') as lf:
        pr = subprocess.Popen(cmd, cwd=d, env=env, stdout=lf, stderr=subprocess.STDOUT, text=True, start_new_session=True)
        try:
            rc = pr.wait(timeout=timeout)
            timed_out = False
        except subprocess.TimeoutExpired:
            timed_out = True
            rc = -9
            try:
                os.killpg(pr.pid, 9)   # cargo-kani, kani-driver and every cbmc child
            except OSError:
                pass
            pr.wait()
    out = open(logf, errors='replace').read() + ('\nTIMEOUT' if timed_out else '')
    try:
        os.remove(logf)
    except OSError:
        pass
    lock = os.path.join(d, 'Cargo.lock')
    if os.path.exists(lock) and not os.path.exists(os.path.join(CACHE, 'kani-Cargo.lock')):
        shutil.copy(lock, os.path.join(CACHE, 'kani-Cargo.lock'))
    return out, rc, time.time() - t0, ' '.join(cmd)


def parse(out, names):
    """per-harness: status, checks, time.  With -j the driver prefixes `Thread N:`; a result block belongs to the harness
    that thread announced last."""
    res = {}
    cur = None            # harness of the block being read
    by_thread = {}
    block = []

    def close(nm, lines):
        if nm is None:
            return
        b = '\n'.join(lines)
        st = None
        if re.search(r'VERIFICATION:- SUCCESSFUL', b):
            st = 'ok'
        elif re.search(r'VERIFICATION:- FAILED', b):
            st = 'failed'
        if st is None:
            return
        mc = re.search(r'\*\* (\d+) of (\d+) failed', b)
        mt = re.search(r'Verification Time: ([\d.]+)s', b)
        failed_checks = re.findall(r'Failed Checks: (.*)', b)
        res[nm] = {'status': st, 'checks': int(mc.group(2)) if mc else 0, 'failed': int(mc.group(1)) if mc else 0,
                   'time_s': float(mt.group(1)) if mt else None, 'failed_checks': failed_checks[:5],
                   'unwind_fail': any('unwinding assertion' in f for f in failed_checks),
                   'oom': 'out of memory' in b}

    for ln in out.split('\n'):
        m = re.match(r'(?:Thread (\d+): )?Checking harness ([\w:]+)\.\.\.', ln)
        if m:
            close(cur, block)
            block = []
            nm = m.group(2).split('::')[-1]
            if m.group(1) is not None:
                by_thread[m.group(1)] = nm
                cur = None
            else:
                cur = nm
            continue
        m = re.match(r'Thread (\d+):\s*$', ln)
        if m:
            close(cur, block)
            block = []
            cur = by_thread.get(m.group(1))
            continue
        block.append(ln)
        if 'Verification Time:' in ln or 'CBMC appears to have run out of memory' in ln:
            close(cur, block)
            block = []
            cur = None
    close(cur, block)
    for nm in re.findall(r'Verification failed for - ([\w:]+)', out):
        nm = nm.split('::')[-1]
        res.setdefault(nm, {'status': 'failed', 'checks': 0, 'failed': 1, 'time_s': None, 'failed_checks': [], 'unwind_fail': False, 'oom': False})
    return res


def playback(d, name, timeout=900):
    """concrete counterexample of a failed harness"""
    env = dict(os.environ, CARGO_NET_OFFLINE='true', CARGO_TARGET_DIR=os.path.join(CACHE, 'kani-target'))
    cmd = ['cargo', 'kani', '--exact', '--harness', qualify(name), '-Z', 'concrete-playback', '--concrete-playback=print', '--output-format', 'terse']
    try:
        p = subprocess.run(cmd, cwd=d, env=env, capture_output=True, text=True, timeout=timeout)
    except subprocess.TimeoutExpired:
        return None
    m = re.search(r'let concrete_vals: Vec<Vec<u8>> = vec!\[(.*?)\];', p.stdout, re.S)
    if not m:
        return None
    vals = []
    for v in re.findall(r'vec!\[([\d,\s]*)\]', m.group(1)):
        bs = bytes(int(x) for x in v.replace(' ', '').split(',') if x)
        vals.append(int.from_bytes(bs, 'little'))
    return vals


def latlng_enum(prop, repo, crate):
    """thorough tier: exhaustive native enumeration of the decode->encode identity over all 2^32 stored values"""
    r = {'group': 'latlng_enum', 'failures': [], 'undecided': [], 'checks': 0, 'harnesses': [], 'trusted': [], 'wall_s': 0}
    try:
        d, _ = prepare(repo, 'thorough', crate)
    except X.ExtractionError as e:
        r['undecided'].append(f'latlng enumeration: {e}')
        return r
    env = dict(os.environ, CARGO_NET_OFFLINE='true', CARGO_TARGET_DIR=os.path.join(CACHE, 'enum-target'))
    t0 = time.time()
    b = subprocess.run(['cargo', 'build', '--release', '--offline', '--quiet', '--bin', 'latlng_enum'], cwd=d, env=env, capture_output=True, text=True)
    if b.returncode != 0:
        r['undecided'].append('latlng enumeration does not build: ' + b.stderr[-600:].replace('\n', ' '))
        return r
    p = subprocess.run([os.path.join(env['CARGO_TARGET_DIR'], 'release', 'latlng_enum')], capture_output=True, text=True)
    r['wall_s'] = round(time.time() - t0, 1)
    out = p.stdout.strip()
    r['harnesses'].append({'name': 'latlng_enum', 'target': 'header::lat_lng::LatLng::{read_lat_lon, write_lat_lon} (conversion expressions, all 2^32 stored values)',
                           'checks': 4294967296 if out.startswith('OK') else 0, 'time_s': r['wall_s'], 'complete': True, 'status': 'ok' if out.startswith('OK') else 'failed',
                           'kind': 'exhaustive enumeration of a finite domain (not proof)'})
    if not out.startswith('OK'):
        r['failures'].append({'function': 'header::lat_lng::LatLng::write_lat_lon/read_lat_lon', 'unit': 'enum:latlng', 'kind': 'exhaustive enumeration found a counterexample',
                              'clause': 'w(r(v)) == v for every stored i32', 'site': out[:300], 'tags': [prop + ':stored_value_survives_rewrite'], 'src': 'src/header/lat_lng.rs',
                              'rendered': out, 'lost_anchors': [], 'kani_values': None})
    return r


def run_group(group, prop, tier, repo, crate=None):
    r = {'group': group, 'failures': [], 'undecided': [], 'checks': 0, 'harnesses': [], 'trusted': [], 'wall_s': 0}
    if crate is None:
        text, _ = X.expand(repo, CACHE)
        crate = X.Crate(text)
    try:
        d, znames = prepare(repo, tier, crate)
    except X.ExtractionError as e:
        r['undecided'].append(f'kani group {group}: {e}')
        return r
    names = list(GROUPS[group])
    if group == 'tile_id':
        names += znames
    jobs = int(os.environ.get('VERIF_KANI_JOBS', '14'))
    timeout = int(os.environ.get('VERIF_KANI_TIMEOUT', '7200' if tier == 'thorough' else '1500'))
    # result cache: key = harness sources + repo fingerprint + kani version
    key = hashlib.sha256((''.join(open(os.path.join(d, 'src', f)).read() for f in sorted(os.listdir(os.path.join(d, 'src'))) if f.endswith('.rs'))
                          + X.repo_fingerprint(repo) + group + tier).encode()).hexdigest()[:24]
    cfile = os.path.join(CACHE, 'kani', f'{group}-{key}.json')
    os.makedirs(os.path.dirname(cfile), exist_ok=True)
    if os.path.exists(cfile):
        saved = json.load(open(cfile))
        out, rc, wall, cmd, hit = saved['out'], saved['rc'], saved['wall'], saved['cmd'], True
    else:
        out, rc, wall, cmd = run_harnesses(d, [n for n, _ in names], jobs, timeout)
        hit = False
        if 'TIMEOUT' not in out[-20:]:
            json.dump({'out': out, 'rc': rc, 'wall': wall, 'cmd': cmd}, open(cfile, 'w'))
    r['wall_s'] = round(wall, 1)
    r['cmd'] = cmd
    r['cache_hit'] = hit
    res = parse(out, names)
    for n, target in names:
        h = res.get(n)
        if h is None or h['status'] is None:
            r['undecided'].append(f'kani harness {n}: no verdict (build error, timeout or out of memory): ' + out[-400:].replace('\n', ' '))
            continue
        bounded = n.startswith(('adj_', 'child_', 'f2_', 'd1_'))
        r['harnesses'].append({'name': n, 'target': target, 'checks': h['checks'], 'time_s': h['time_s'],
                               'complete': not bounded, 'status': h['status']})
        r['checks'] += h['checks']
        if h['status'] == 'failed' and h.get('oom'):
            r['undecided'].append(f'kani harness {n}: CBMC ran out of memory (no verdict)')
            r['harnesses'][-1]['status'] = 'no verdict (out of memory)'
            continue
        if h['status'] == 'failed':
            if h['unwind_fail'] and h['failed'] == sum(1 for f in h['failed_checks'] if 'unwinding' in f):
                r['undecided'].append(f'kani harness {n}: only unwinding assertions failed (loop bound too small for the changed code)')
                continue
            vals = playback(d, n)
            r['failures'].append({'function': target, 'unit': 'kani:' + group, 'kind': 'kani check failed', 'clause': n + ': ' + '; '.join(h['failed_checks'])[:300],
                                  'site': n, 'tags': [prop + ':' + n], 'src': None, 'rendered': '', 'kani_values': vals, 'lost_anchors': []})
    r['trusted'] = ['kani 0.68 / cbmc 6.11 bit-precise semantics of the compiled MIR of pmtiles2, hilbert_2d 1.1.0, integer-encoding 3.0.4',
                    'kani/src/spec.rs: reference Hilbert id and LEB128 transcribed from the PMTiles v3 specification']
    return r
