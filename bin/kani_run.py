"""Kani harness groups (filled in per property)."""
def run_group(group, prop, tier, repo):
    return {'group': group, 'failures': [], 'undecided': [], 'checks': 0, 'harnesses': [], 'trusted': []}
