"""Witness search: look for a concrete failing input on the REAL crate for a failed obligation."""
import hashlib
import json
import os
import subprocess
import time

VERIF = os.path.dirname(os.path.dirname(os.path.abspath(__file__)))
TARGET = os.path.join(VERIF, '.cache', 'replay-target')


def build_replay(repo):
    """build the replay crate against `repo` (path dependency is /repo; other repos are handled by a patched copy)"""
    env = dict(os.environ, CARGO_TARGET_DIR=TARGET, CARGO_NET_OFFLINE='true')
    src = os.path.join(VERIF, 'replay')
    if os.path.realpath(repo) != '/repo':
        # scratch copy of the replay crate pointing at the other tree
        import shutil
        key = hashlib.sha1(os.path.realpath(repo).encode()).hexdigest()[:8]   # one scratch crate + target per scratch tree
        dst = os.path.join(VERIF, '.cache', 'replay-alt-' + key)
        shutil.rmtree(dst, ignore_errors=True)
        shutil.copytree(src, dst, ignore=shutil.ignore_patterns('target'))
        t = open(os.path.join(dst, 'Cargo.toml')).read().replace('path = "/repo"', f'path = "{os.path.realpath(repo)}"')
        open(os.path.join(dst, 'Cargo.toml'), 'w').write(t)
        src = dst
        env['CARGO_TARGET_DIR'] = TARGET + '-alt-' + key
    p = subprocess.run(['cargo', 'build', '--offline', '--quiet'], cwd=src, env=env, capture_output=True, text=True)
    if p.returncode != 0:
        return None, p.stderr[-2000:]
    return os.path.join(env['CARGO_TARGET_DIR'], 'debug', 'replay'), ''


def search(prop, sub, repo, failures, tier='quick'):
    """quick: one run of the generators with the seed of the environment (default 0); thorough: eight seeds"""
    if not sub:
        return {'witness': None, 'note': 'no witness search registered for this property'}
    exe, err = build_replay(repo)
    if exe is None:
        return {'witness': None, 'note': 'replay crate does not build against this tree: ' + err[-500:]}
    base = int(os.environ.get('VERIF_SEED', '0') or 0)
    seeds = [base + k for k in range(8)] if tier == 'thorough' else [base]
    notes = []
    evaluated = 0
    for sd in seeds:
        try:
            p = subprocess.run([exe, 'witness', sub], capture_output=True, text=True, env=dict(os.environ, VERIF_SEED=str(sd)),
                               timeout=int(os.environ.get('VERIF_WITNESS_TIMEOUT', '120' if tier != 'thorough' else '600')))
        except subprocess.TimeoutExpired:
            notes.append(f'seed {sd}: timed out')
            continue
        out = p.stdout.strip().split('\n')
        for ln in out:
            if ln.startswith('WITNESS '):
                return {'witness': ln[len('WITNESS '):], 'cmd': f'VERIF_SEED={sd} replay witness {sub}', 'exit': p.returncode}
        last = (out[-1] if out else '')
        if 'evaluated=' in last:
            try:
                evaluated += int(last.split('evaluated=')[1].split()[0])
            except ValueError:
                pass
        notes.append(f'seed {sd}: ' + last + ' ' + p.stderr[-200:])
    return {'witness': None, 'note': f'NO-WITNESS seeds={seeds} evaluated={evaluated} ' + ('; '.join(n for n in notes if 'NO-WITNESS' not in n))[:600],
            'cmd': f'replay witness {sub}', 'exit': 0}


def write_replay(prop, failures, wit):
    d = os.path.join(VERIF, 'gen', 'replay')
    os.makedirs(d, exist_ok=True)
    h = hashlib.sha256(json.dumps([f['clause'] + f['site'] for f in failures]).encode()).hexdigest()[:10]
    p = os.path.join(d, f'{prop}-{h}.json')
    json.dump({'property': prop, 'failed_obligations': failures, 'witness': wit, 'time': time.strftime('%Y-%m-%dT%H:%M:%S')},
              open(p, 'w'), indent=1, default=str)
    return p


def replay_file(path, repo):
    d = json.load(open(path))
    print('property:', d['property'])
    for f in d['failed_obligations']:
        print(f"failed obligation: {f.get('unit')}::{f['function']} [{f['kind']}]\n  clause: {f['clause']}\n  site:   {f['site']}\n  src:    {f.get('src')}")
        print(f.get('rendered', ''))
    w = d.get('witness') or {}
    if w.get('witness'):
        exe, err = build_replay(repo)
        if exe is None:
            print('replay crate does not build:', err)
            return 2
        p = subprocess.run([exe, 'witness', w['cmd'].split()[-1]], capture_output=True, text=True)
        print(p.stdout)
        return 1 if 'WITNESS ' in p.stdout else 0
    print('no concrete failing input recorded (no-failing-input-found)')
    return 1
