"""Property -> machinery map.  `units`: Verus units whose tagged obligations decide the property;
`kani`: harness groups; `witness`: replay sub-command used to look for a concrete failing input."""
ALL = ['directory', 'tile_manager', 'read_directories', 'write_directories', 'header', 'pmtiles']
PROPS = {
    'C01': {'units': ALL, 'kani': ['latlng'], 'witness': 'C01'},
    'C02': {'units': ['pmtiles', 'write_directories', 'tile_manager', 'directory', 'header'], 'witness': 'C02'},
    'C03': {'units': ['pmtiles', 'read_directories', 'directory', 'tile_manager', 'header', 'varint_dep'], 'kani': ['dirfind'], 'witness': 'C03'},
    'C04': {'units': ['tile_manager', 'pmtiles'], 'witness': 'C04'},
    'C05': {'units': ['directory', 'varint_dep'], 'kani': ['varint'], 'witness': 'C05'},
    'C06': {'units': ['write_directories', 'directory'], 'witness': 'C06'},
    'C07': {'units': ['pmtiles', 'tile_id'], 'kani': ['tile_id'], 'witness': 'C07'},
    'C08': {'units': ['directory', 'tile_manager', 'read_directories', 'header', 'pmtiles', 'write_directories', 'varint_dep', 'tile_id'], 'witness': 'C08'},
    'C09': {'units': ['header', 'pmtiles'], 'kani': ['latlng'], 'witness': 'C09'},
    'C10': {'units': ['tile_manager'], 'witness': 'C10'},
    'C11': {'units': ['read_directories', 'pmtiles'], 'witness': 'C11'},
    'C12': {'units': ALL, 'witness': 'C12'},
    'C13': {'units': ALL + ['varint_dep'], 'witness': 'C13'},
    'C14': {'units': ['directory'], 'witness': 'C14'},
    'C15': {'units': ALL, 'witness': 'C15'},
    'C16': {'units': ['pmtiles', 'tile_manager'], 'kani': ['latlng'], 'witness': 'C16'},
    'C17': {'units': ['pmtiles', 'header', 'write_directories', 'directory'], 'witness': 'C17'},
    'C18': {'units': ['pmtiles', 'write_directories', 'header'], 'witness': 'C18'},
    'C19': {'units': ['directory', 'tile_manager', 'pmtiles'], 'witness': 'C19'},
    'C20': {'units': ['pmtiles', 'tile_manager', 'read_directories', 'directory', 'header'], 'witness': 'C20'},
}


def _close_units():
    """A unit that uses `//@stub <unit> <fn>` declarations relies on contracts proved in <unit>: the check of a property runs the
    closure, so that a clause of a depended-on contract that carries the property's tag and fails is reported for the property."""
    import glob, os, re
    here = os.path.dirname(os.path.dirname(os.path.abspath(__file__)))
    deps = {}
    for f in glob.glob(os.path.join(here, 'units', '*.vrs')):
        texts, todo, seen = [], [f], set()
        while todo:      # the unit template and everything it includes (a spec file may carry a stub as well)
            g = todo.pop()
            if g in seen or not os.path.exists(g):
                continue
            seen.add(g)
            t = open(g).read()
            texts.append(t)
            todo += [os.path.join(here, m.group(1)) for m in re.finditer(r'^//@include (\S+)', t, re.M)]
        me = os.path.basename(f)[:-4]
        deps[me] = sorted({m.group(1) for t in texts for m in re.finditer(r'^\s*//@stub (\w+) ', t, re.M)} - {me})
    for cfg in PROPS.values():
        us = list(cfg.get('units', []))
        cfg['primary_units'] = list(us)
        k = 0
        while k < len(us):
            for d in deps.get(us[k], []):
                if d not in us:
                    us.append(d)
            k += 1
        cfg['units'] = us


_close_units()
