"""Property -> machinery map.  `units`: Verus units whose tagged obligations decide the property;
`kani`: harness groups; `witness`: replay sub-command used to look for a concrete failing input."""
PROPS = {
    'C05': {'units': ['directory'], 'kani': ['varint'], 'witness': 'C05'},
    'C19': {'units': ['directory'], 'witness': 'C19'},
    'C08': {'units': ['directory'], 'witness': 'C08'},
}
