"""Property -> machinery map.  `units`: Verus units whose tagged obligations decide the property;
`kani`: harness groups; `witness`: replay sub-command used to look for a concrete failing input."""
PROPS = {
    'C07': {'units': [], 'kani': ['tile_id'], 'witness': 'C07'},
    'C05': {'units': ['directory'], 'kani': ['varint'], 'witness': 'C05'},
    'C19': {'units': ['directory', 'tile_manager'], 'witness': 'C19'},
    'C08': {'units': ['directory', 'tile_manager', 'read_directories'], 'witness': 'C08'},
    'C06': {'units': ['write_directories', 'directory'], 'witness': 'C06'},
    'C11': {'units': ['read_directories'], 'witness': 'C11'},
    'C03': {'units': ['directory', 'read_directories', 'tile_manager'], 'witness': 'C03'},
    'C04': {'units': ['tile_manager'], 'witness': 'C04'},
    'C10': {'units': ['tile_manager'], 'witness': 'C10'},
}
