//! Independent, specification-level PMTiles v3 reference code (written from the v3 spec, not from /repo).
//! Used only by the witness search / replay; the proofs do not depend on it.
use std::collections::BTreeMap;

#[derive(Clone, Copy, Debug, PartialEq, Eq)]
pub struct E { pub id: u64, pub off: u64, pub len: u32, pub run: u32 }

pub fn put_varint(mut v: u64, out: &mut Vec<u8>) {
    while v >= 128 { out.push((v % 128) as u8 + 128); v /= 128; }
    out.push(v as u8);
}
pub fn get_varint(b: &[u8], p: &mut usize) -> Option<u64> {
    let mut v: u64 = 0;
    for i in 0..10 {
        let x = *b.get(*p)?; *p += 1;
        v |= ((x & 0x7f) as u64).checked_shl(7 * i).unwrap_or(0);
        if x < 128 { return Some(v); }
    }
    None
}
pub fn dir_enc(es: &[E]) -> Vec<u8> {
    let mut o = Vec::new();
    put_varint(es.len() as u64, &mut o);
    let mut last = 0u64;
    for e in es { put_varint(e.id - last, &mut o); last = e.id; }
    for e in es { put_varint(e.run as u64, &mut o); }
    for e in es { put_varint(e.len as u64, &mut o); }
    for (i, e) in es.iter().enumerate() {
        if i > 0 && e.off == es[i - 1].off + es[i - 1].len as u64 { put_varint(0, &mut o); } else { put_varint(e.off + 1, &mut o); }
    }
    o
}
pub fn dir_dec(b: &[u8]) -> Option<Vec<E>> {
    let mut p = 0;
    let n = get_varint(b, &mut p)? as usize;
    if n > b.len() { return None; }
    let mut es = vec![E { id: 0, off: 0, len: 0, run: 0 }; n];
    let mut last = 0u64;
    for e in es.iter_mut() { last = last.checked_add(get_varint(b, &mut p)?)?; e.id = last; }
    for e in es.iter_mut() { e.run = u32::try_from(get_varint(b, &mut p)?).ok()?; }
    for e in es.iter_mut() { e.len = u32::try_from(get_varint(b, &mut p)?).ok()?; if e.len == 0 { return None; } }
    for i in 0..n {
        let v = get_varint(b, &mut p)?;
        es[i].off = if v == 0 { if i == 0 { return None; } es[i - 1].off.checked_add(es[i - 1].len as u64)? } else { v - 1 };
    }
    Some(es)
}

pub fn base_id(z: u8) -> u64 { (0..z as u32).map(|i| 1u64 << (2 * i)).sum() }
pub fn hilbert_id(z: u8, x: u64, y: u64) -> u64 {
    let (mut x, mut y, mut d) = (x, y, 0u64);
    let mut s = (1u64 << z) / 2;
    while s > 0 {
        let rx = u64::from(x & s > 0); let ry = u64::from(y & s > 0);
        d += s * s * ((3 * rx) ^ ry);
        if ry == 0 { if rx == 1 { x = s.wrapping_sub(1).wrapping_sub(x); y = s.wrapping_sub(1).wrapping_sub(y); } std::mem::swap(&mut x, &mut y); }
        s /= 2;
    }
    base_id(z) + d
}

#[derive(Debug, Clone)]
pub struct Hdr {
    pub root_off: u64, pub root_len: u64, pub meta_off: u64, pub meta_len: u64, pub leaf_off: u64, pub leaf_len: u64,
    pub data_off: u64, pub data_len: u64, pub n_addr: u64, pub n_entries: u64, pub n_contents: u64,
    pub clustered: u8, pub ic: u8, pub tc: u8, pub tt: u8, pub min_zoom: u8, pub max_zoom: u8,
    pub min_lon: i32, pub min_lat: i32, pub max_lon: i32, pub max_lat: i32, pub center_zoom: u8, pub c_lon: i32, pub c_lat: i32,
}
fn u64_at(b: &[u8], o: usize) -> u64 { u64::from_le_bytes(b[o..o + 8].try_into().unwrap()) }
fn i32_at(b: &[u8], o: usize) -> i32 { i32::from_le_bytes(b[o..o + 4].try_into().unwrap()) }
pub fn parse_header(b: &[u8]) -> Result<Hdr, String> {
    if b.len() < 127 { return Err("shorter than 127 bytes".into()); }
    if &b[0..7] != b"PMTiles" { return Err("bad magic".into()); }
    if b[7] != 3 { return Err("version != 3".into()); }
    if b[97] > 4 { return Err("internal compression code".into()); }
    if b[98] > 4 { return Err("tile compression code".into()); }
    if b[99] > 5 { return Err("tile type code".into()); }
    Ok(Hdr { root_off: u64_at(b, 8), root_len: u64_at(b, 16), meta_off: u64_at(b, 24), meta_len: u64_at(b, 32), leaf_off: u64_at(b, 40),
        leaf_len: u64_at(b, 48), data_off: u64_at(b, 56), data_len: u64_at(b, 64), n_addr: u64_at(b, 72), n_entries: u64_at(b, 80),
        n_contents: u64_at(b, 88), clustered: b[96], ic: b[97], tc: b[98], tt: b[99], min_zoom: b[100], max_zoom: b[101],
        min_lon: i32_at(b, 102), min_lat: i32_at(b, 106), max_lon: i32_at(b, 110), max_lat: i32_at(b, 114), center_zoom: b[118],
        c_lon: i32_at(b, 119), c_lat: i32_at(b, 123) })
}
pub fn build_header(h: &Hdr) -> Vec<u8> {
    let mut o = b"PMTiles".to_vec(); o.push(3);
    for v in [h.root_off, h.root_len, h.meta_off, h.meta_len, h.leaf_off, h.leaf_len, h.data_off, h.data_len, h.n_addr, h.n_entries, h.n_contents] { o.extend(v.to_le_bytes()); }
    o.extend([h.clustered, h.ic, h.tc, h.tt, h.min_zoom, h.max_zoom]);
    for v in [h.min_lon, h.min_lat, h.max_lon, h.max_lat] { o.extend(v.to_le_bytes()); }
    o.push(h.center_zoom);
    for v in [h.c_lon, h.c_lat] { o.extend(v.to_le_bytes()); }
    assert_eq!(o.len(), 127);
    o
}

pub fn comp_of(code: u8) -> pmtiles2::Compression {
    use pmtiles2::Compression::*;
    match code { 1 => None, 2 => GZip, 3 => Brotli, 4 => ZStd, _ => Unknown }
}
pub fn decompress(code: u8, b: &[u8]) -> Result<Vec<u8>, String> { pmtiles2::util::decompress_all(comp_of(code), b).map_err(|e| e.to_string()) }
pub fn compress(code: u8, b: &[u8]) -> Vec<u8> { pmtiles2::util::compress_all(comp_of(code), b).unwrap() }

/// An archive as an independent spec-level reader sees it (with the validity rules of the v3 specification checked)
pub struct Parsed { pub hdr: Hdr, pub meta: serde_json::Value, pub tiles: BTreeMap<u64, (u64, u32)>, pub entries: Vec<E>, pub root_len: usize, pub n_dirs: usize }

fn sect<'a>(b: &'a [u8], off: u64, len: u64, what: &str) -> Result<&'a [u8], String> {
    let e = off.checked_add(len).ok_or(format!("{what}: offset+length overflows"))?;
    if e as usize > b.len() { return Err(format!("{what} [{off},{e}) outside the file of {} bytes", b.len())); }
    Ok(&b[off as usize..e as usize])
}
fn walk(b: &[u8], h: &Hdr, off: u64, len: u64, depth: u32, out: &mut Vec<E>, n_dirs: &mut usize) -> Result<(), String> {
    if depth > 3 { return Err("directory nesting deeper than 3".into()); }
    let raw = sect(b, off, len, "directory")?;
    let es = dir_dec(&decompress(h.ic, raw)?).ok_or("directory does not decode")?;
    *n_dirs += 1;
    for w in es.windows(2) { if w[0].id >= w[1].id { return Err(format!("entries not strictly ascending: {} then {}", w[0].id, w[1].id)); }
        if w[0].run > 0 && w[0].id + w[0].run as u64 > w[1].id { return Err("overlapping runs".into()); } }
    for e in &es {
        if e.run == 0 {
            if e.off + e.len as u64 > h.leaf_len { return Err("leaf pointer outside the leaf section".into()); }
            let before = out.len();
            walk(b, h, h.leaf_off + e.off, e.len as u64, depth + 1, out, n_dirs)?;
            if out.len() > before && out[before].id != e.id { return Err(format!("leaf pointer id {} != first id of its leaf {}", e.id, out[before].id)); }
        } else { out.push(*e); }
    }
    Ok(())
}
/// library-written archives: the three header statistics must equal the recomputed values
pub fn parse_archive(b: &[u8]) -> Result<Parsed, String> { parse_archive_opt(b, false) }
/// foreign archives: a statistic of 0 means "unknown" (PMTiles v3) and is accepted
pub fn parse_archive_foreign(b: &[u8]) -> Result<Parsed, String> { parse_archive_opt(b, true) }
fn parse_archive_opt(b: &[u8], unknown_ok: bool) -> Result<Parsed, String> {
    let hdr = parse_header(b)?;
    let h = &hdr;
    if h.root_off < 127 { return Err("root directory overlaps the header".into()); }
    if h.root_off + h.root_len > 16384 { return Err(format!("root directory: offset {}, length {} exceeds the first 16 KiB", h.root_off, h.root_len)); }
    let mut secs = vec![(0u64, 127u64, "header"), (h.root_off, h.root_len, "root"), (h.meta_off, h.meta_len, "metadata"), (h.leaf_off, h.leaf_len, "leaves"), (h.data_off, h.data_len, "data")];
    for s in &secs { sect(b, s.0, s.1, s.2)?; }
    secs.retain(|s| s.1 > 0);
    secs.sort();
    for w in secs.windows(2) { if w[0].0 + w[0].1 > w[1].0 { return Err(format!("sections {} and {} overlap", w[0].2, w[1].2)); } }
    let meta = if h.meta_len == 0 { serde_json::json!({}) } else {
        serde_json::from_slice::<serde_json::Value>(&decompress(h.ic, sect(b, h.meta_off, h.meta_len, "metadata")?)?).map_err(|e| format!("metadata: {e}"))? };
    if !meta.is_object() { return Err("metadata is not a JSON object".into()); }
    let mut entries = Vec::new(); let mut n_dirs = 0;
    walk(b, h, h.root_off, h.root_len, 0, &mut entries, &mut n_dirs)?;
    for w in entries.windows(2) { if w[0].id + w[0].run as u64 > w[1].id { return Err("entries overlap / not ascending across leaves".into()); } }
    let mut tiles = BTreeMap::new();
    let mut contents = std::collections::BTreeSet::new();
    let mut addressed = 0u64;
    for e in &entries {
        if e.off + e.len as u64 > h.data_len { return Err(format!("tile range of id {} outside the data section", e.id)); }
        contents.insert((e.off, e.len));
        addressed += e.run as u64;
        for k in 0..e.run as u64 { tiles.insert(e.id + k, (e.off, e.len)); }
    }
    if h.n_addr != addressed && !(unknown_ok && h.n_addr == 0) { return Err(format!("header says {} addressed tiles, directories address {}", h.n_addr, addressed)); }
    if h.n_entries != entries.len() as u64 && !(unknown_ok && h.n_entries == 0) { return Err(format!("header says {} tile entries, directories hold {}", h.n_entries, entries.len())); }
    if h.n_contents != contents.len() as u64 && !(unknown_ok && h.n_contents == 0) { return Err(format!("header says {} tile contents, directories reference {}", h.n_contents, contents.len())); }
    if h.clustered == 1 {
        let mut hi = 0u64;
        for e in &entries { if e.off < hi && !contents.contains(&(e.off, e.len)) { return Err("clustered flag set but offsets go backwards".into()); } if e.off >= hi { hi = e.off; } }
        let mut seen = std::collections::BTreeSet::new(); let mut next = 0u64;
        for e in &entries { if seen.insert((e.off, e.len)) { if e.off < next { return Err("clustered flag set but new contents are not laid out in tile-id order".into()); } next = e.off; } }
    }
    Ok(Parsed { hdr, meta, tiles, entries, root_len: 0, n_dirs })
}
impl Parsed {
    pub fn bytes_of<'a>(&self, b: &'a [u8], id: u64) -> Option<&'a [u8]> {
        let (o, l) = *self.tiles.get(&id)?;
        let s = (self.hdr.data_off + o) as usize;
        Some(&b[s..s + l as usize])
    }
}

/// tiny deterministic PRNG (xorshift64*)
pub struct Rng(pub u64);
impl Rng {
    pub fn new(seed: u64) -> Self { Rng(seed.wrapping_mul(0x9E3779B97F4A7C15) | 1) }
    pub fn next(&mut self) -> u64 { self.0 ^= self.0 >> 12; self.0 ^= self.0 << 25; self.0 ^= self.0 >> 27; self.0.wrapping_mul(0x2545F4914F6CDD1D) }
    pub fn below(&mut self, n: u64) -> u64 { if n == 0 { 0 } else { self.next() % n } }
    pub fn pick<'a, T>(&mut self, v: &'a [T]) -> &'a T { &v[self.below(v.len() as u64) as usize] }
}
