//! bounded / sampled search for C14 on the REAL crate and the REAL codec libraries: compression helpers are inverse for every codec,
//! input shape, write-split schedule and read size, sync and async; `Unknown` is an error.  Never counted as proof.
use std::io::{Cursor, Read, Write};

use futures::executor::block_on;
use futures::io::{AsyncReadExt, AsyncWriteExt};
use pmtiles2::util::{compress, compress_all, compress_async, decompress, decompress_all, decompress_async};
use pmtiles2::Compression;

use crate::witness::ctx;
use crate::spec::Rng;

const CODECS: [Compression; 4] = [Compression::None, Compression::GZip, Compression::Brotli, Compression::ZStd];

fn inputs(r: &mut Rng) -> Vec<(String, Vec<u8>)> {
    let mut v: Vec<(String, Vec<u8>)> = vec![
        ("empty".into(), vec![]),
        ("one byte 0".into(), vec![0]),
        ("one byte 255".into(), vec![255]),
        ("100 000 x 'a'".into(), vec![b'a'; 100_000]),
        ("json-like text".into(), (0..3000).flat_map(|i| format!("{{\"k{}\":[{},null,\"v\"]}},", i % 17, i).into_bytes()).collect()),
    ];
    v.push(("70 000 pseudo-random bytes".into(), (0..70_000).map(|_| r.below(256) as u8).collect()));
    v.push(("4097 pseudo-random bytes (one over a buffer size)".into(), (0..4097).map(|_| r.below(256) as u8).collect()));
    v.push(("1.5 MB pattern".into(), (0..1_500_000u32).map(|i| ((i / 7) ^ (i >> 9)) as u8).collect()));
    v.push(("1 MB pseudo-random".into(), (0..1_000_000).map(|_| r.below(256) as u8).collect()));
    v.push(("3 MiB of zeros".into(), vec![0u8; 3 << 20]));
    // byte strings that are themselves compressed streams, or only begin like one
    for (nm, c) in [("a gzip stream", Compression::GZip), ("a zstd stream", Compression::ZStd), ("a brotli stream", Compression::Brotli)] {
        if let Ok(z) = compress_all(c, b"the quick brown fox jumps over the lazy dog, twice: the quick brown fox jumps over the lazy dog") { v.push((format!("{nm} as input"), z)); }
    }
    v.push(("gzip magic followed by noise".into(), [0x1fu8, 0x8b, 0x08].into_iter().chain((0..300).map(|_| r.below(256) as u8)).collect()));
    v.push(("zstd magic followed by noise".into(), [0x28u8, 0xb5, 0x2f, 0xfd].into_iter().chain((0..300).map(|_| r.below(256) as u8)).collect()));
    v
}

fn schedules(r: &mut Rng, len: usize) -> Vec<Vec<usize>> {
    let mut s = vec![vec![7usize], vec![4096], vec![4095, 1, 0, 2], vec![0, 1, 0, 65_536], (0..9).map(|_| r.below(5000) as usize).collect()];
    if len <= 5000 { s.push(vec![1]); }
    s
}

fn split<'a>(d: &'a [u8], sched: &[usize]) -> Vec<&'a [u8]> {
    let (mut out, mut i, mut k) = (Vec::new(), 0usize, 0usize);
    let mut stuck = 0;
    while i < d.len() {
        let c = sched[k % sched.len()].min(d.len() - i); k += 1;
        if c == 0 { stuck += 1; if stuck > sched.len() { out.push(&d[i..]); break; } out.push(&d[i..i]); continue; }
        stuck = 0;
        out.push(&d[i..i + c]); i += c;
    }
    out
}

fn stream_compress(c: Compression, d: &[u8], sched: &[usize], flush_mid: bool) -> Result<Vec<u8>, String> {
    let mut out = Vec::new();
    {
        let mut w = compress(c, &mut out).map_err(|e| format!("compress: {e}"))?;
        for (j, chunk) in split(d, sched).into_iter().enumerate() {
            w.write_all(chunk).map_err(|e| format!("write_all: {e}"))?;
            if flush_mid && j % 3 == 1 { w.flush().map_err(|e| format!("flush: {e}"))?; }
        }
        w.flush().map_err(|e| format!("flush: {e}"))?;
    }
    Ok(out)
}
fn stream_decompress(c: Compression, z: &[u8], bufsize: usize) -> Result<Vec<u8>, String> {
    let mut cur = Cursor::new(z);
    let mut rd = decompress(c, &mut cur).map_err(|e| format!("decompress: {e}"))?;
    let mut out = Vec::new(); let mut buf = vec![0u8; bufsize.max(1)];
    loop { let n = rd.read(&mut buf).map_err(|e| format!("read: {e}"))?; if n == 0 { break; } out.extend_from_slice(&buf[..n]); }
    Ok(out)
}
/// a source that hands out `k` bytes per read call
struct Drip<'a> { d: &'a [u8], at: usize, k: usize }
impl<'a> Read for Drip<'a> { fn read(&mut self, b: &mut [u8]) -> std::io::Result<usize> { let c = self.k.min(b.len()).min(self.d.len() - self.at); b[..c].copy_from_slice(&self.d[self.at..self.at + c]); self.at += c; Ok(c) } }
fn drip_decompress(c: Compression, z: &[u8], k: usize) -> Result<Vec<u8>, String> {
    let mut src = Drip { d: z, at: 0, k };
    let mut rd = decompress(c, &mut src).map_err(|e| format!("decompress: {e}"))?;
    let mut out = Vec::new(); rd.read_to_end(&mut out).map_err(|e| format!("read_to_end: {e}"))?;
    Ok(out)
}
fn async_compress(c: Compression, d: &[u8], sched: &[usize]) -> Result<Vec<u8>, String> {
    block_on(async {
        let mut out = futures::io::Cursor::new(Vec::new());
        {
            let mut w = compress_async(c, &mut out).map_err(|e| format!("compress_async: {e}"))?;
            for chunk in split(d, sched) { w.write_all(chunk).await.map_err(|e| format!("async write_all: {e}"))?; }
            w.flush().await.map_err(|e| format!("async flush: {e}"))?;
            w.close().await.map_err(|e| format!("async close: {e}"))?;
        }
        Ok(out.into_inner())
    })
}
fn async_decompress(c: Compression, z: &[u8], bufsize: usize) -> Result<Vec<u8>, String> {
    block_on(async {
        let mut cur = futures::io::Cursor::new(z.to_vec());
        let mut rd = decompress_async(c, &mut cur).map_err(|e| format!("decompress_async: {e}"))?;
        let mut out = Vec::new(); let mut buf = vec![0u8; bufsize.max(1)];
        loop { let n = rd.read(&mut buf).await.map_err(|e| format!("async read: {e}"))?; if n == 0 { break; } out.extend_from_slice(&buf[..n]); }
        Ok(out)
    })
}
/// an unrelated gzip implementation (zlib through python3), when it is there
fn foreign_gunzip(z: &[u8]) -> Option<Vec<u8>> {
    use std::process::{Command, Stdio};
    let mut ch = Command::new("python3").args(["-c", "import sys,gzip;sys.stdout.buffer.write(gzip.decompress(sys.stdin.buffer.read()))"])
        .stdin(Stdio::piped()).stdout(Stdio::piped()).stderr(Stdio::null()).spawn().ok()?;
    let mut stdin = ch.stdin.take()?;
    let zz = z.to_vec();
    let t = std::thread::spawn(move || { let _ = stdin.write_all(&zz); });
    let o = ch.wait_with_output().ok()?; let _ = t.join();
    if o.status.success() { Some(o.stdout) } else { Some(b"<python3 gzip.decompress failed>".to_vec()) }
}
fn foreign_gzip(d: &[u8]) -> Option<Vec<u8>> {
    use std::process::{Command, Stdio};
    let mut ch = Command::new("python3").args(["-c", "import sys,gzip;sys.stdout.buffer.write(gzip.compress(sys.stdin.buffer.read(), 6))"])
        .stdin(Stdio::piped()).stdout(Stdio::piped()).stderr(Stdio::null()).spawn().ok()?;
    let mut stdin = ch.stdin.take()?;
    let dd = d.to_vec();
    let t = std::thread::spawn(move || { let _ = stdin.write_all(&dd); });
    let o = ch.wait_with_output().ok()?; let _ = t.join();
    if o.status.success() { Some(o.stdout) } else { None }
}

pub fn c14() -> Result<u64, String> {
    let seed: u64 = std::env::var("VERIF_SEED").ok().and_then(|s| s.parse().ok()).unwrap_or(0);
    let mut r = Rng::new(seed ^ 14);
    let mut n = 0u64;
    // Unknown is always an error
    {
        ctx("Compression::Unknown".into());
        if compress_all(Compression::Unknown, b"abc").is_ok() { return Err("compress_all(Unknown, ..) returned Ok".into()); }
        if decompress_all(Compression::Unknown, b"abc").is_ok() { return Err("decompress_all(Unknown, ..) returned Ok".into()); }
        let mut v = Vec::new(); if compress(Compression::Unknown, &mut v).is_ok() { return Err("compress(Unknown, ..) returned Ok".into()); }
        let mut c = Cursor::new(vec![1u8, 2]); if decompress(Compression::Unknown, &mut c).is_ok() { return Err("decompress(Unknown, ..) returned Ok".into()); }
        let mut o = futures::io::Cursor::new(Vec::new()); if compress_async(Compression::Unknown, &mut o).is_ok() { return Err("compress_async(Unknown, ..) returned Ok".into()); }
        let mut i = futures::io::Cursor::new(vec![1u8, 2]); if decompress_async(Compression::Unknown, &mut i).is_ok() { return Err("decompress_async(Unknown, ..) returned Ok".into()); }
        n += 6;
    }
    for (name, d) in inputs(&mut r) {
        let big = d.len() > 200_000;
        for c in CODECS {
            let what = format!("{name} ({} bytes), {c:?}", d.len());
            ctx(what.clone());
            // one shot
            let z = compress_all(c, &d).map_err(|e| format!("compress_all fails ({what}): {e}"))?;
            let back = decompress_all(c, &z).map_err(|e| format!("decompress_all of compress_all's output fails ({what}): {e}"))?;
            if back != d { return Err(format!("one-shot round trip returns other bytes ({what}): {} bytes back, first difference at {:?}", back.len(), back.iter().zip(&d).position(|(a, b)| a != b))); }
            if c == Compression::None && z != d { return Err(format!("compress_all(None) is not the identity ({what})")); }
            n += 1;
            if c == Compression::GZip && d.len() <= 200_000 {
                if let Some(f) = foreign_gunzip(&z) { if f != d { return Err(format!("an unrelated gzip implementation (python3/zlib) decodes compress_all's output to other bytes ({what})")); } n += 1; }
                if let Some(fz) = foreign_gzip(&d) { let b2 = decompress_all(c, &fz).map_err(|e| format!("decompress_all rejects a gzip stream written by python3/zlib ({what}): {e}"))?; if b2 != d { return Err(format!("decompress_all decodes a foreign gzip stream to other bytes ({what})")); } n += 1; }
            }
            // streamed through the writer adapter in every schedule, decoded in one shot and streamed
            let scheds = if big { vec![vec![65_536usize], vec![1_000_003]] } else { schedules(&mut r, d.len()) };
            for (k, sched) in scheds.iter().enumerate() {
                let zs = stream_compress(c, &d, sched, k % 2 == 1).map_err(|e| format!("streaming compress, writes split as {sched:?} ({what}): {e}"))?;
                let b1 = decompress_all(c, &zs).map_err(|e| format!("decompress_all of the streamed output (writes split as {sched:?}) fails ({what}): {e}"))?;
                if b1 != d { return Err(format!("streamed compress (writes split as {sched:?}, flush-then-drop) + decompress_all returns other bytes ({what}): {} bytes back", b1.len())); }
                n += 1;
            }
            for bs in if big { vec![65_536usize] } else { vec![1usize, 3, 4096, 100_000] } {
                if bs == 1 && d.len() > 20_000 { continue; }
                let b2 = stream_decompress(c, &z, bs).map_err(|e| format!("streaming decompress with {bs}-byte reads ({what}): {e}"))?;
                if b2 != d { return Err(format!("streaming decompress with {bs}-byte reads returns other bytes ({what}): {} bytes back", b2.len())); }
                n += 1;
            }
            if d.len() <= 200_000 { for k in [1usize, 2, 3, 5] {
                let b6 = drip_decompress(c, &z, k).map_err(|e| format!("reader adapter over a source that delivers {k} byte(s) per read ({what}): {e}"))?;
                if b6 != d { return Err(format!("reader adapter over a source that delivers {k} byte(s) per read returns other bytes ({what})")); }
                n += 1;
            } }
            // async adapters, and sync <-> async cross decoding
            let ascheds = if big { vec![vec![65_536usize]] } else { vec![vec![4096usize], vec![1, 50, 0, 7000]] };
            for sched in &ascheds {
                let za = async_compress(c, &d, sched).map_err(|e| format!("async compress, writes split as {sched:?} ({what}): {e}"))?;
                let b3 = decompress_all(c, &za).map_err(|e| format!("decompress_all (sync) rejects the async writer's output ({what}): {e}"))?;
                if b3 != d { return Err(format!("async compress (writes split as {sched:?}, close) + sync decompress_all returns other bytes ({what}): {} bytes back", b3.len())); }
                let b4 = async_decompress(c, &za, 4096).map_err(|e| format!("async decompress of the async writer's output ({what}): {e}"))?;
                if b4 != d { return Err(format!("async compress + async decompress returns other bytes ({what})")); }
                n += 2;
            }
            let b5 = async_decompress(c, &z, if big { 65_536 } else { 3 }).map_err(|e| format!("async decompress of compress_all's output ({what}): {e}"))?;
            if b5 != d { return Err(format!("async decompress of the sync one-shot output returns other bytes ({what}): {} bytes back", b5.len())); }
            n += 1;
        }
    }
    Ok(n)
}
