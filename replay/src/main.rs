//! Replays counterexamples and demonstrates known defects against the REAL crate in /repo.
//! usage: replay defect <D1..D6|KF1>   -> exit 0: behaviour correct, exit 1: defect manifests (message on stdout)
use std::io::{Cursor, Seek, SeekFrom, Write};
use std::panic::{catch_unwind, AssertUnwindSafe};

use pmtiles2::{Compression, Directory, Entry, PMTiles, TileType};

mod faulty;
mod spec;
mod witness;
mod c14;
pub use faulty::FaultyStream;

fn quiet<T>(f: impl FnOnce() -> T) -> std::thread::Result<T> {
    let prev = std::panic::take_hook();
    std::panic::set_hook(Box::new(|_| {}));
    let r = catch_unwind(AssertUnwindSafe(f));
    std::panic::set_hook(prev);
    r
}

fn small_archive() -> Vec<u8> {
    let mut pm = PMTiles::new(TileType::Png, Compression::None);
    pm.internal_compression = Compression::None;
    pm.add_tile(pmtiles2::util::tile_id(2, 0, 0), vec![7u8]).unwrap();
    pm.add_tile(0, vec![1u8, 2, 3]).unwrap();
    let mut out = Cursor::new(Vec::new());
    pm.to_writer(&mut out).unwrap();
    out.into_inner()
}

fn defect(id: &str) -> Result<(), String> {
    match id {
        "D1" => {
            let bytes = small_archive();
            let mut pm = PMTiles::from_bytes(&bytes).map_err(|e| e.to_string())?;
            match quiet(|| pm.get_tile(4, 0, 2)) {
                Ok(Ok(None)) => {}
                Ok(Ok(Some(b))) => return Err(format!("get_tile(x=4,y=0,z=2) returned another tile's bytes {b:?}")),
                Ok(Err(_)) => {}
                Err(_) => return Err("get_tile(4,0,2) panicked".into()),
            }
            match quiet(|| pm.get_tile(0, 0, 40)) {
                Ok(Ok(None)) | Ok(Err(_)) => Ok(()),
                Ok(Ok(Some(b))) => Err(format!("get_tile(0,0,40) returned bytes {b:?}")),
                Err(_) => Err("get_tile(x=0,y=0,z=40) panicked".into()),
            }
        }
        "D2" => {
            for (name, bytes) in [
                ("first offset 0", vec![1u8, 0, 1, 1, 0]),
                ("id sum overflow", {
                    let mut v = vec![2u8];
                    for _ in 0..2 { v.extend([0xff, 0xff, 0xff, 0xff, 0xff, 0xff, 0xff, 0xff, 0xff, 0x01]); }
                    v.extend([1, 1, 1, 1, 1, 1]);
                    v
                }),
                ("huge count", vec![0xff, 0xff, 0xff, 0xff, 0xff, 0xff, 0xff, 0xff, 0x0f]),
                ("offset sum overflow", {
                    // 2 entries: ids 0,1 runs 1,1 lens 2,2 offs (u64::MAX-1)+1 = u64::MAX, 0 (contiguous -> MAX-1+2 overflows)
                    let mut v = vec![2u8, 0, 1, 1, 1, 2, 2];
                    v.extend([0xff, 0xff, 0xff, 0xff, 0xff, 0xff, 0xff, 0xff, 0xff, 0x01]);
                    v.push(0);
                    v
                }),
            ] {
                match quiet(|| Directory::from_bytes(&bytes, Compression::None)) {
                    Ok(_) => {}
                    Err(_) => return Err(format!("Directory::from_bytes panicked on hostile directory ({name}) {bytes:?}")),
                }
            }
            Ok(())
        }
        "D3" => {
            // root directory with one leaf pointer that designates the root itself
            let root = Directory::from(vec![Entry { tile_id: 0, offset: 0, length: 5, run_length: 0 }]);
            let mut dirb = Cursor::new(Vec::new());
            root.to_writer(&mut dirb, Compression::None).unwrap();
            let dirb = dirb.into_inner();
            let mut a = small_archive();
            // rewrite the header: root at 127 len dirb.len(), leaf section offset 127
            a.truncate(127);
            a[8..16].copy_from_slice(&127u64.to_le_bytes());
            a[16..24].copy_from_slice(&(dirb.len() as u64).to_le_bytes());
            a[24..32].copy_from_slice(&0u64.to_le_bytes());
            a[32..40].copy_from_slice(&0u64.to_le_bytes());
            a[40..48].copy_from_slice(&127u64.to_le_bytes());
            a[48..56].copy_from_slice(&(dirb.len() as u64).to_le_bytes());
            a.extend(&dirb);
            // run in a thread with a small stack so that unbounded recursion is detected without aborting this process…
            // a stack overflow aborts the process, so we use a child process instead
            let exe = std::env::current_exe().unwrap();
            let tmp = std::env::temp_dir().join(format!("replay_d3_{}.bin", std::process::id()));
            std::fs::write(&tmp, &a).unwrap();
            let st = std::process::Command::new(exe).arg("open").arg(&tmp).output().unwrap();
            let _ = std::fs::remove_file(&tmp);
            if st.status.code() == Some(0) || st.status.code() == Some(3) { Ok(()) } else {
                Err(format!("opening an archive whose leaf pointer designates the root directory crashed: {:?}", st.status))
            }
        }
        "D4" => {
            let mut pm = PMTiles::new(TileType::Png, Compression::None);
            pm.internal_compression = Compression::None;
            pm.min_longitude = 21e-7;
            let mut out = Cursor::new(Vec::new());
            pm.to_writer(&mut out).unwrap();
            let b = out.into_inner();
            let stored = i32::from_le_bytes(b[102..106].try_into().unwrap());
            if stored != 21 { return Err(format!("longitude 21e-7 stored as {stored}, not 21")); }
            // decode -> encode identity for one stored value
            let pm2 = PMTiles::from_bytes(&b).unwrap();
            let mut out2 = Cursor::new(Vec::new());
            pm2.to_writer(&mut out2).unwrap();
            let b2 = out2.into_inner();
            if b2[102..106] != b[102..106] { return Err("stored coordinate drifts on rewrite".into()); }
            Ok(())
        }
        "D5" => {
            let bytes = small_archive();
            match quiet(|| PMTiles::from_bytes_partially(&bytes, ..0).map(|p| p.num_tiles())) {
                Ok(Ok(0)) => Ok(()),
                Ok(Ok(n)) => Err(format!("range ..0 yields {n} tiles")),
                Ok(Err(e)) => Err(format!("range ..0 fails: {e}")),
                Err(_) => Err("from_bytes_partially(bytes, ..0) panicked".into()),
            }
        }
        "D6" => {
            let mut pm = PMTiles::new(TileType::Png, Compression::None);
            pm.internal_compression = Compression::None;
            pm.add_tile(1, vec![9u8, 9]).unwrap();
            let mut out = Cursor::new(vec![0xAAu8; 10]);
            out.seek(SeekFrom::Start(10)).unwrap();
            pm.to_writer(&mut out).unwrap();
            let pos = out.position();
            let b = out.into_inner();
            if b[..10] != [0xAAu8; 10] { return Err("bytes before the start position P=10 were overwritten".into()); }
            if &b[10..17] != b"PMTiles" { return Err("header is not at P=10".into()); }
            if pos as usize != b.len() { return Err(format!("final position {pos} != end {}", b.len())); }
            let mut pm2 = PMTiles::from_bytes(&b[10..]).map_err(|e| format!("bytes from P do not open: {e}"))?;
            if pm2.get_tile_by_id(1).unwrap() != Some(vec![9u8, 9]) { return Err("tile differs when read from P".into()); }
            Ok(())
        }
        "KF1" => {
            let dir = Directory::from(vec![Entry { tile_id: 1, offset: 0, length: 3, run_length: 1 }; 1]);
            let mut bad = Vec::new();
            for c in [Compression::GZip, Compression::Brotli, Compression::ZStd] {
                // count operations of the fault-free run
                let mut s = FaultyStream::new(usize::MAX);
                dir.to_writer(&mut s, c).unwrap();
                let n = s.ops();
                let full = s.into_bytes();
                for k in 0..n {
                    let mut s = FaultyStream::new(k);
                    let r = dir.to_writer(&mut s, c);
                    if r.is_ok() { bad.push(format!("{c:?}: fails from op {k} of {n}, returned Ok with {} of {} bytes", s.into_bytes().len(), full.len())); }
                }
            }
            if bad.is_empty() { Ok(()) } else { Err(bad.join("; ")) }
        }
        _ => Err(format!("unknown defect id {id}")),
    }
}

fn main() {
    let args: Vec<String> = std::env::args().collect();
    match args.get(1).map(String::as_str) {
        Some("defect") => {
            let id = args.get(2).expect("defect id");
            match defect(id) {
                Ok(()) => println!("OK {id}: behaviour is correct on this tree"),
                Err(m) => { println!("DEFECT {id}: {m}"); std::process::exit(1); }
            }
        }
        Some("witness") => {
            let id = args.get(2).expect("property id").as_str();
            if id == "C08" {
                // a stack overflow or abort cannot be caught in-process: run the search in a child and watch it
                let exe = std::env::current_exe().unwrap();
                let out = std::process::Command::new(exe).args(["witness-child", "C08"]).output().unwrap();
                let so = String::from_utf8_lossy(&out.stdout);
                if let Some(l) = so.lines().find(|l| l.starts_with("WITNESS ")) { println!("{l}"); std::process::exit(1); }
                if !out.status.success() {
                    let last = so.lines().filter(|l| l.starts_with("PROGRESS ")).last().unwrap_or("PROGRESS (first input)").to_string();
                    println!("WITNESS process crashed ({:?}) on the hostile input after: {}", out.status, &last[9..]);
                    std::process::exit(1);
                }
                println!("{}", so.lines().last().unwrap_or("NO-WITNESS"));
                return;
            }
            let r = witness::quiet(|| match id {
                "C05" => witness::c05(), "C19" => witness::c19(), "C04" => witness::c04(), "C10" => witness::c10(), "C16" => witness::c16(),
                "C01" | "C02" | "C18" => witness::c01_c02_c18(), "C03" | "C11" | "C20x" => witness::c03_c11_c20(), "C06" => witness::c06(),
                "C07" => witness::c07(), "C09" => witness::c09(), "C15" => witness::c15(), "C17" => witness::c17(), "C13" => witness::c13(),
                "C12" => witness::c12(), "C20" => witness::c20(), "C14" => c14::c14(),
                _ => Err(format!("NO-SEARCH {id}")),
            });
            // a panic of the library on an input of the property's domain is a failing input
            let r = match r { Ok(r) => r, Err(p) => Err(format!("the library panicked (`{p}`) while {}", witness::CONTEXT.lock().map(|g| g.clone()).unwrap_or_default())) };
            if let Err(m) = &r { if m.starts_with("NO-SEARCH") { println!("NO-WITNESS no search registered for {id}"); return; } }
            match r { Ok(n) => println!("NO-WITNESS evaluated={n}"), Err(m) => { println!("WITNESS {m}"); std::process::exit(1); } }
        }
        Some("witness-child") => {
            match witness::c08_child() { Ok(n) => println!("NO-WITNESS evaluated={n}"), Err(m) => { println!("WITNESS {m}"); std::process::exit(1); } }
        }
        Some("open") => {
            let b = std::fs::read(&args[2]).unwrap();
            match PMTiles::from_bytes(&b) { Ok(_) => std::process::exit(0), Err(_) => std::process::exit(3) }
        }
        _ => { eprintln!("usage: replay defect <id> | open <file>"); std::process::exit(2); }
    }
    let _ = std::io::stdout().flush();
}
