//! An in-memory Read+Write+Seek stream that starts failing (fail-stop) at operation number `fail_from`.
use std::io::{Error, ErrorKind, Read, Result, Seek, SeekFrom, Write};

pub struct FaultyStream { inner: std::io::Cursor<Vec<u8>>, ops: usize, fail_from: usize }

impl FaultyStream {
    pub fn new(fail_from: usize) -> Self { Self { inner: std::io::Cursor::new(Vec::new()), ops: 0, fail_from } }
    pub fn with_bytes(bytes: Vec<u8>, fail_from: usize) -> Self { Self { inner: std::io::Cursor::new(bytes), ops: 0, fail_from } }
    pub fn ops(&self) -> usize { self.ops }
    pub fn into_bytes(self) -> Vec<u8> { self.inner.into_inner() }
    fn tick(&mut self) -> Result<()> {
        let k = self.ops; self.ops += 1;
        if k >= self.fail_from { Err(Error::new(ErrorKind::Other, "injected fault")) } else { Ok(()) }
    }
}
impl Read for FaultyStream { fn read(&mut self, b: &mut [u8]) -> Result<usize> { self.tick()?; self.inner.read(b) } }
impl Write for FaultyStream {
    fn write(&mut self, b: &[u8]) -> Result<usize> { self.tick()?; self.inner.write(b) }
    fn flush(&mut self) -> Result<()> { self.tick()?; self.inner.flush() }
}
impl Seek for FaultyStream { fn seek(&mut self, p: SeekFrom) -> Result<u64> { self.tick()?; self.inner.seek(p) } }
