//! Bounded witness search: for a property whose proof obligation failed, look for a concrete failing input on the REAL crate.
//! Each function returns Err(description of the failing input) on the first violation found.  These searches are bounded and
//! sampled (bounds stated in each function); they never stand in for a proof, they only supply counterexamples.
use std::collections::BTreeMap;
use std::io::{Cursor, Seek, SeekFrom};
use std::panic::{catch_unwind, AssertUnwindSafe};

use futures::executor::block_on;
use pmtiles2::{util, Compression, Directory, Entry, Header, PMTiles, TileType};

use crate::faulty::FaultyStream;
use crate::spec::*;

pub const COMPS: [Compression; 4] = [Compression::None, Compression::GZip, Compression::Brotli, Compression::ZStd];
fn code(c: Compression) -> u8 { match c { Compression::Unknown => 0, Compression::None => 1, Compression::GZip => 2, Compression::Brotli => 3, Compression::ZStd => 4 } }
fn to_entries(es: &[E]) -> Vec<Entry> { es.iter().map(|e| Entry { tile_id: e.id, offset: e.off, length: e.len, run_length: e.run }).collect() }
fn from_entries(d: &Directory) -> Vec<E> { d.into_iter().map(|e| E { id: e.tile_id, off: e.offset, len: e.length, run: e.run_length }).collect() }

pub fn quiet<T>(f: impl FnOnce() -> T) -> Result<T, String> {
    let prev = std::panic::take_hook();
    std::panic::set_hook(Box::new(|_| {}));
    let r = catch_unwind(AssertUnwindSafe(f));
    std::panic::set_hook(prev);
    r.map_err(|e| e.downcast_ref::<String>().cloned().or_else(|| e.downcast_ref::<&str>().map(|s| s.to_string())).unwrap_or_else(|| "panic".into()))
}

/// what the search is working on (reported when the library panics inside a search)
pub static CONTEXT: std::sync::Mutex<String> = std::sync::Mutex::new(String::new());
pub fn ctx(s: String) { if let Ok(mut g) = CONTEXT.lock() { *g = s; } }

fn seed() -> u64 { std::env::var("VERIF_SEED").ok().and_then(|s| s.parse().ok()).unwrap_or(0) }

// ------------------------------------------------------------------------------------------------ generators
/// a valid directory: ids strictly ascending, runs non-overlapping, len >= 1; mixes contiguous, back-referencing and far offsets
pub fn gen_dir(r: &mut Rng, n: usize, big: bool) -> Vec<E> {
    let mut es: Vec<E> = Vec::new();
    let mut id = r.below(3);
    let mut next_off = 0u64;
    for i in 0..n {
        let run = if r.below(4) == 0 { 1 + r.below(if big { 1 << 20 } else { 5 }) as u32 } else { 1 };
        let len = 1 + if big && r.below(8) == 0 { r.below(u32::MAX as u64 - 1) as u32 } else { r.below(40) as u32 };
        let off = match r.below(6) {
            0 if i > 0 => es[r.below(i as u64) as usize].off,            // back reference (dedup)
            1 => next_off + 1 + r.below(50),                             // gap
            2 if big => r.below(1 << 62),
            3 if i > 0 => { let p: &E = &es[r.below(i as u64) as usize]; p.off + p.len as u64 } // contiguous with an EARLIER entry
            _ => next_off,
        };
        es.push(E { id, off, len, run });
        next_off = off + len as u64;
        id += run as u64 + if r.below(3) == 0 { r.below(if big { 1 << 40 } else { 4 }) } else { 0 };
    }
    es
}

pub fn gen_tiles(r: &mut Rng, n: usize, spread: u64) -> BTreeMap<u64, Vec<u8>> {
    let pool: Vec<Vec<u8>> = (0..1 + n / 3).map(|k| { let l = 1 + r.below(24) as usize; (0..l).map(|j| (k * 7 + j) as u8 ^ r.below(4) as u8).collect() }).collect();
    let mut m = BTreeMap::new();
    let mut id = r.below(3);
    for _ in 0..n {
        let mut c: Vec<u8> = if r.below(3) == 0 { pool[r.below(pool.len() as u64) as usize].clone() } else { let l = 1 + r.below(30) as usize; (0..l).map(|_| r.below(256) as u8).collect() };
        // near-duplicates: a proper prefix of an earlier content (a foreign writer may store them at the SAME offset with different lengths)
        if r.below(5) == 0 { if let Some(prev) = m.values().nth(r.below(m.len() as u64 + 1) as usize).cloned() { let prev: Vec<u8> = prev; if prev.len() >= 2 { c = prev[..1 + r.below(prev.len() as u64 - 1) as usize].to_vec(); } } }
        m.insert(id, c);
        id += 1 + if r.below(3) == 0 { r.below(spread) } else { 0 };
    }
    m
}

pub fn build(tiles: &BTreeMap<u64, Vec<u8>>, ic: Compression, meta: &serde_json::Map<String, serde_json::Value>) -> PMTiles<Cursor<&'static [u8]>> {
    let mut pm = PMTiles::new(TileType::Png, Compression::None);
    pm.internal_compression = ic;
    pm.meta_data = meta.clone();
    for (k, v) in tiles { pm.add_tile(*k, v.clone()).unwrap(); }
    pm
}
pub fn write_at<R: std::io::Read + Seek>(pm: PMTiles<R>, p: u64) -> std::io::Result<(Vec<u8>, u64)> {
    let mut out = Cursor::new(vec![0xEEu8; p as usize]);
    out.seek(SeekFrom::Start(p))?;
    pm.to_writer(&mut out)?;
    let pos = out.position();
    Ok((out.into_inner(), pos))
}

/// independent writer of a (possibly unusual) spec-valid archive: sections in a chosen order with gaps, leaves of given size
pub fn foreign_archive(r: &mut Rng, tiles: &BTreeMap<u64, Vec<u8>>, ic: u8, leaf_size: usize, depth2: bool) -> Vec<u8> {
    // data section: contents in random order, deduplicated
    let mut contents: Vec<&Vec<u8>> = tiles.values().collect();
    contents.sort(); contents.dedup();
    for i in (1..contents.len()).rev() { let j = r.below(i as u64 + 1) as usize; contents.swap(i, j); }
    let mut data = Vec::new(); let mut where_: BTreeMap<&Vec<u8>, (u64, u32)> = BTreeMap::new();
    // a content that is a proper prefix of another one is (often) not stored at all: it shares the longer content's offset
    let all_contents: Vec<&Vec<u8>> = contents.clone();
    let mut shared: Vec<(&Vec<u8>, &Vec<u8>)> = Vec::new();
    for c in contents {
        if let Some(longer) = all_contents.iter().find(|l| l.len() > c.len() && l[..c.len()] == c[..]) { if r.below(3) != 0 { shared.push((c, *longer)); continue; } }
        if r.below(4) == 0 { data.extend([0u8; 3]); } where_.insert(c, (data.len() as u64, c.len() as u32)); data.extend(c.iter()); }
    // (a chain prefix-of-prefix resolves through the longest stored content)
    for _ in 0..4 { for (c, longer) in &shared { if !where_.contains_key(*c) { if let Some(&(o, _)) = where_.get(*longer) { where_.insert(*c, (o, c.len() as u32)); } } } }
    for (c, _) in &shared { if !where_.contains_key(*c) { where_.insert(*c, (data.len() as u64, c.len() as u32)); data.extend(c.iter()); } }
    let mut es: Vec<E> = Vec::new();
    for (id, c) in tiles {
        let (o, l) = where_[c];
        if let Some(last) = es.last_mut() { if last.id + last.run as u64 == *id && last.off == o && last.len == l && r.below(4) != 0 { last.run += 1; continue; } }
        es.push(E { id: *id, off: o, len: l, run: 1 });
    }
    let enc = |es: &[E]| compress(ic, &dir_enc(es));
    let (root, leaves) = if leaf_size == 0 || es.len() <= leaf_size { (enc(&es), Vec::new()) } else {
        let mut leaves = Vec::new(); let mut ptrs = Vec::new();
        for ch in es.chunks(leaf_size) { let b = enc(ch); ptrs.push(E { id: ch[0].id, off: leaves.len() as u64, len: b.len() as u32, run: 0 }); leaves.extend(b); }
        // nested pointer levels: root -> pointer leaf (-> pointer leaf) -> tile leaf, i.e. tile leaves at depth 2 or 3 (the deepest the reader accepts)
        let mut levels = 1;
        while depth2 && ptrs.len() > 2 && levels < 3 {
            let mut p2 = Vec::new();
            for ch in ptrs.chunks(2) { let b = enc(ch); p2.push(E { id: ch[0].id, off: leaves.len() as u64, len: b.len() as u32, run: 0 }); leaves.extend(b); }
            ptrs = p2; levels += 1;
        }
        (enc(&ptrs), leaves)
    };
    let meta = compress(ic, br#"{"name":"foreign"}"#);
    // layout: header, root, then {meta, leaves, data} in random order with gaps
    let mut out = vec![0u8; 127]; let root_off = 127u64; out.extend(&root);
    let mut order = [0usize, 1, 2]; for i in (1..3).rev() { let j = r.below(i as u64 + 1) as usize; order.swap(i, j); }
    let (mut mo, mut lo, mut doff) = (0u64, 0u64, 0u64);
    for s in order { if r.below(2) == 0 { out.extend([0xABu8; 5]); }
        match s { 0 => { mo = out.len() as u64; out.extend(&meta); } 1 => { lo = out.len() as u64; out.extend(&leaves); } _ => { doff = out.len() as u64; out.extend(&data); } } }
    let n_contents = where_.len() as u64;
    // the header statistics may be 0 = "unknown" (PMTiles v3): a reader must not rely on them
    let unknown_stats = r.below(3) == 0;
    let h = Hdr { root_off, root_len: root.len() as u64, meta_off: mo, meta_len: meta.len() as u64, leaf_off: lo, leaf_len: leaves.len() as u64, data_off: doff,
        data_len: data.len() as u64, n_addr: if unknown_stats { 0 } else { tiles.len() as u64 }, n_entries: if unknown_stats { 0 } else { es.len() as u64 }, n_contents: if unknown_stats { 0 } else { n_contents }, clustered: 0, ic, tc: 1, tt: 2, min_zoom: 1, max_zoom: 9,
        min_lon: -1_234_567, min_lat: 21, max_lon: 1_800_000_000, max_lat: 850_000_000, center_zoom: 4, c_lon: 7, c_lat: -7 };
    out[..127].copy_from_slice(&build_header(&h));
    out
}

// ------------------------------------------------------------------------------------------------ C05
pub fn c05() -> Result<u64, String> {
    let mut r = Rng::new(seed() ^ 5);
    let mut n = 0u64;
    let vals_off = [0u64, 1, 2, 127, 128, (1 << 62) - 1];
    let vals_len = [1u32, 2, 127, 128, u32::MAX];
    let mut cases: Vec<Vec<E>> = vec![vec![]];
    for &o in &vals_off { for &l in &vals_len { cases.push(vec![E { id: 0, off: o, len: l, run: 1 }]);
        for &o2 in &vals_off { for &l2 in &[1u32, 128] { cases.push(vec![E { id: 5, off: o, len: l, run: 2 }, E { id: 7, off: o2, len: l2, run: 0 }]);
            cases.push(vec![E { id: 5, off: o, len: l, run: 2 }, E { id: 9, off: o.saturating_add(l as u64).min(1 << 62), len: l2, run: u32::MAX }]); } } } }
    for k in 0..400 { let len = [0, 1, 2, 3, 5, 17, 100, 4097][k % 8]; cases.push(gen_dir(&mut r, len, k % 2 == 0)); }
    // ids at the very end of the valid tile-id space (zoom 31) and the start of each zoom block
    { let last = util::tile_id(31, (1 << 31) - 1, 0).max(util::tile_id(31, 0, (1 << 31) - 1)).max(6148914691236517204);
      cases.push(vec![E { id: util::tile_id(31, 0, 0), off: 0, len: 3, run: 2 }, E { id: util::tile_id(31, 5, 5), off: 3, len: 1, run: 1 }, E { id: last, off: 0, len: 3, run: 1 }]);
      cases.push((0..32u8).map(|z| E { id: util::tile_id(z, 0, 0), off: z as u64 * 10, len: 10, run: 1 }).collect()); }
    // highly regular directories: consecutive ids, contiguous equal-size tiles (compress to far fewer bytes than entries)
    for &cnt in &[50usize, 200, 1000, 5000, 20000] { for &l in &[1u32, 100, 4096] {
        cases.push((0..cnt as u64).map(|i| E { id: 3 + i * 2, off: i * l as u64, len: l, run: 1 }).collect()); } }
    for es in &cases {
        let want = dir_enc(es);
        for c in COMPS {
            n += 1;
            let d = Directory::from(to_entries(es));
            let mut out = Cursor::new(Vec::new());
            d.to_writer(&mut out, c).map_err(|e| format!("to_writer({c:?}) failed on valid directory {:?}: {e}", &es[..es.len().min(4)]))?;
            let bytes = out.into_inner();
            if c == Compression::None && bytes != want { return Err(format!("uncompressed serialisation differs from the v3 encoding for entries {:?}: got {:?} want {:?}", &es[..es.len().min(4)], &bytes[..bytes.len().min(40)], &want[..want.len().min(40)])); }
            let plain = decompress(code(c), &bytes)?;
            if plain != want { return Err(format!("{c:?}: decompressed serialisation differs from the v3 encoding for entries {:?}", &es[..es.len().min(4)])); }
            let back = Directory::from_bytes(&bytes, c).map_err(|e| format!("parse of own output failed ({c:?}): {e}"))?;
            if from_entries(&back) != *es { let i = (0..es.len()).find(|&i| from_entries(&back).get(i) != Some(&es[i])).unwrap_or(0);
                return Err(format!("{c:?}: round trip differs at entry {i}: wrote {:?}, read {:?} (n={})", es.get(i), from_entries(&back).get(i), es.len())); }
            // independent encoder's output through the parser
            let back2 = Directory::from_bytes(&compress(code(c), &want), c).map_err(|e| format!("parse of the independent encoder's output failed ({c:?}): {e}"))?;
            if from_entries(&back2) != *es { return Err(format!("{c:?}: parser decodes the independent encoding of {:?} to {:?}", &es[..es.len().min(4)], &from_entries(&back2)[..es.len().min(4)])); }
            // async twins
            let mut aout = futures::io::Cursor::new(Vec::new());
            block_on(d.to_async_writer(&mut aout, c)).map_err(|e| format!("to_async_writer({c:?}): {e}"))?;
            if decompress(code(c), &aout.into_inner())? != want { return Err(format!("async serialisation ({c:?}) differs from the v3 encoding")); }
            let mut ain = futures::io::Cursor::new(bytes.clone());
            let ab = block_on(Directory::from_async_reader(&mut ain, bytes.len() as u64, c)).map_err(|e| format!("from_async_reader({c:?}): {e}"))?;
            if from_entries(&ab) != *es { return Err(format!("async parse ({c:?}) differs from the entries written")); }
        }
    }
    Ok(n)
}

// ------------------------------------------------------------------------------------------------ C19
pub fn c19() -> Result<u64, String> {
    let mut n = 0u64;
    // empty tile refused, nothing changes -- at any point of a history, also on occupied ids and opened archives
    let mut r = Rng::new(seed() ^ 19);
    for round in 0..60 {
        let tiles = gen_tiles(&mut r, 1 + round % 7, 3);
        let (bytes, _) = write_at(build(&tiles, Compression::None, &Default::default()), 0).map_err(|e| e.to_string())?;
        for opened in [false, true] {
            let mut pm: PMTiles<Cursor<Vec<u8>>> = if opened { PMTiles::from_bytes(bytes.clone()).map_err(|e| e.to_string())? } else {
                let mut p = PMTiles::from_bytes(bytes.clone()).map_err(|e| e.to_string())?; for (k, v) in &tiles { p.add_tile(*k, v.clone()).unwrap(); } p };
            let ids: Vec<u64> = tiles.keys().copied().chain([9_999_999]).collect();
            for id in ids {
                n += 1;
                if pm.add_tile(id, Vec::<u8>::new()).is_ok() { return Err(format!("add_tile({id}, empty) returned Ok")); }
                if pm.num_tiles() != tiles.len() { return Err(format!("after a refused add_tile({id}, []) the archive has {} tiles instead of {}", pm.num_tiles(), tiles.len())); }
                for (k, v) in &tiles { if pm.get_tile_by_id(*k).map_err(|e| e.to_string())?.as_ref() != Some(v) { return Err(format!("after a refused add_tile({id}, []) on an {} archive, tile {k} changed", if opened { "opened" } else { "in-memory" })); } }
            }
        }
    }
    // length-0 entries refused by serialiser and parser at any index
    for len in [1usize, 2, 3, 10, 300] { for pos in [0, len / 2, len - 1] { for c in COMPS {
        n += 1;
        let mut es = gen_dir(&mut r, len, false); es[pos].len = 0;
        // the entry with length 0 is a tile entry or (every other case) a leaf-directory pointer: both are refused
        if (len + pos) % 2 == 1 { es[pos].run = 0; }
        let d = Directory::from(to_entries(&es));
        match quiet(|| d.to_writer(&mut Cursor::new(Vec::new()), c)) { Ok(Err(_)) => {}, Ok(Ok(())) => return Err(format!("serialiser accepted a length-0 entry at index {pos} of {len} ({c:?})")), Err(p) => return Err(format!("serialiser panicked on a length-0 entry: {p}")) }
        // craft the encoding by hand (dir_enc does not care about len 0)
        let raw = compress(code(c), &dir_enc(&es));
        match quiet(|| Directory::from_bytes(&raw, c)) { Ok(Err(_)) => {}, Ok(Ok(_)) => return Err(format!("parser accepted a length-0 entry at index {pos} of {len} ({c:?})")), Err(p) => return Err(format!("parser panicked on a length-0 entry: {p}")) }
    } } }
    // a length field that is a non-zero multiple of 2^32 (or larger than u32): never `Ok` with an entry of length 0
    for len in [1usize, 2, 9, 200] { for pos in [0, len / 2, len - 1] { for c in COMPS { for big in [1u64 << 32, 3u64 << 32, (1u64 << 32) + 5, 1u64 << 40] {
        n += 1;
        let es = gen_dir(&mut r, len, false);
        // hand encoding: counts, id deltas, runs, lengths (with the oversized one), offsets (all explicit)
        let mut raw = Vec::new(); let put = |v: u64, o: &mut Vec<u8>| { let mut v = v; loop { if v < 128 { o.push(v as u8); break; } o.push((v % 128) as u8 + 128); v /= 128; } };
        put(len as u64, &mut raw); let mut last = 0u64; for e in &es { put(e.id - last, &mut raw); last = e.id; }
        for e in &es { put(e.run as u64, &mut raw); }
        for (i, e) in es.iter().enumerate() { put(if i == pos { big } else { e.len as u64 }, &mut raw); }
        for e in &es { put(e.off + 1, &mut raw); }
        let z = compress(code(c), &raw);
        match quiet(|| Directory::from_bytes(&z, c)) { Ok(Err(_)) => {}, Err(p) => return Err(format!("parser panicked on a length field of {big}: {p}")),
            Ok(Ok(d)) => { if let Some(e) = d.into_iter().find(|e| e.length == 0) { return Err(format!("parser returned Ok with an entry of length 0 (tile id {}) for a length field of {big} = {}*2^32+{} at index {pos} of {len} ({c:?})", e.tile_id, big >> 32, big & 0xffff_ffff)); } } }
        match quiet(|| block_on(Directory::from_async_reader(&mut futures::io::Cursor::new(z.clone()), z.len() as u64, c))) { Ok(Err(_)) => {}, Err(p) => return Err(format!("async parser panicked on a length field of {big}: {p}")),
            Ok(Ok(d)) => { if d.into_iter().any(|e| e.length == 0) { return Err(format!("async parser returned Ok with an entry of length 0 for a length field of {big} at index {pos} of {len} ({c:?})")); } } }
    } } } }
    // unknown internal compression is refused when opening -- also for an archive without tiles, directories and metadata of length 0
    for (root_len, meta_len, trail) in [(0u64, 0u64, 0usize), (0, 0, 300), (5, 0, 10), (0, 2, 10)] { n += 1;
        let h = Hdr { root_off: 127, root_len, meta_off: 127 + root_len, meta_len, leaf_off: 127 + root_len + meta_len, leaf_len: 0, data_off: 127 + root_len + meta_len, data_len: 0,
            n_addr: 0, n_entries: 0, n_contents: 0, clustered: 1, ic: 0, tc: 1, tt: 1, min_zoom: 0, max_zoom: 3, min_lon: 0, min_lat: 0, max_lon: 0, max_lat: 0, center_zoom: 0, c_lon: 0, c_lat: 0 };
        let mut b = build_header(&h); b.extend(vec![0u8; (root_len + meta_len) as usize + trail]);
        match quiet(|| PMTiles::from_bytes(&b).map(|p| p.num_tiles())) { Ok(Err(_)) => {}, Ok(Ok(k)) => return Err(format!("an archive with Unknown internal compression (root directory of {root_len} bytes, metadata of {meta_len} bytes) was opened ({k} tiles)")), Err(p) => return Err(format!("opening Unknown compression panicked: {p}")) }
        match quiet(|| PMTiles::from_bytes_partially(&b, 3..9).map(|p| p.num_tiles())) { Ok(Err(_)) => {}, Ok(Ok(_)) => return Err(format!("partial open of an archive with Unknown internal compression (root {root_len} bytes) succeeded")), Err(p) => return Err(format!("partial open of Unknown compression panicked: {p}")) }
        match quiet(|| block_on(PMTiles::from_async_reader(futures::io::Cursor::new(b.clone()))).map(|p| p.num_tiles())) { Ok(Err(_)) => {}, Ok(Ok(_)) => return Err(format!("async: an archive with Unknown internal compression (root {root_len} bytes, metadata {meta_len} bytes) was opened")), Err(p) => return Err(format!("async open of Unknown compression panicked: {p}")) }
    }
    // a refused directory (length-0 entry) leaves the output stream as it was, at any index, for every compression, sync and async
    for len in [1usize, 5, 300] { for pos in [0, len - 1] { for c in COMPS { n += 1;
        let mut es = gen_dir(&mut r, len, false); es[pos].len = 0;
        let d = Directory::from(to_entries(&es));
        let mut out = Cursor::new(vec![0xABu8; 40]); out.seek(SeekFrom::Start(40)).unwrap();
        let res = quiet(|| d.to_writer(&mut out, c)).map_err(|p| format!("serialiser panicked: {p}"))?;
        if res.is_ok() { return Err(format!("serialiser accepted a length-0 entry at index {pos} of {len} ({c:?})")); }
        if out.position() != 40 || out.get_ref().len() != 40 || out.get_ref().iter().any(|&x| x != 0xAB) { return Err(format!("serialiser refused a directory with a length-0 entry at index {pos} of {len} ({c:?}) but had already written {} bytes to the output", out.get_ref().len().max(out.position() as usize) - 40)); }
        let mut aout = futures::io::Cursor::new(Vec::new());
        let ares = quiet(|| block_on(d.to_async_writer(&mut aout, c))).map_err(|p| format!("async serialiser panicked: {p}"))?;
        if ares.is_ok() { return Err(format!("async serialiser accepted a length-0 entry at index {pos} of {len} ({c:?})")); }
        if !aout.get_ref().is_empty() { return Err(format!("async serialiser refused a length-0 entry at index {pos} of {len} ({c:?}) but had already written {} bytes", aout.get_ref().len())); }
    } } }
    // unknown internal compression is refused when WRITING through every entry point, sync and async
    {
        let tl = gen_tiles(&mut r, 3, 2); n += 1;
        let mut apm = PMTiles::new_async(TileType::Png, Compression::None); apm.internal_compression = Compression::Unknown; for (k, v) in &tl { apm.add_tile(*k, v.clone()).unwrap(); }
        let mut o = futures::io::Cursor::new(Vec::new());
        match quiet(|| block_on(apm.to_async_writer(&mut o))) { Ok(Err(_)) => {}, Ok(Ok(())) => return Err("async writing with Unknown internal compression succeeded".into()), Err(p) => return Err(format!("async writing with Unknown compression panicked: {p}")) }
        let d = Directory::from(to_entries(&gen_dir(&mut r, 4, false)));
        if d.to_writer(&mut Cursor::new(Vec::new()), Compression::Unknown).is_ok() { return Err("Directory::to_writer with Unknown compression succeeded".into()); }
        if block_on(d.to_async_writer(&mut futures::io::Cursor::new(Vec::new()), Compression::Unknown)).is_ok() { return Err("Directory::to_async_writer with Unknown compression succeeded".into()); }
        let mut v = Vec::new(); if util::compress(Compression::Unknown, &mut v).is_ok() { return Err("compress(Unknown) succeeded".into()); }
        let mut fo = futures::io::Cursor::new(Vec::new()); if util::compress_async(Compression::Unknown, &mut fo).is_ok() { return Err("compress_async(Unknown) succeeded".into()); }
        if block_on(util::write_directories_async(&mut futures::io::Cursor::new(Vec::new()), &to_entries(&gen_dir(&mut r, 3, false)), Compression::Unknown, None)).is_ok() { return Err("write_directories_async with Unknown compression succeeded".into()); }
    }
    // metadata that is JSON but not an object; unknown internal compression
    let tiles = gen_tiles(&mut r, 3, 2);
    for c in COMPS { for v in ["null", "true", "0", "1.5", "\"x\"", "[]", "[{}]", "7", "-1", "\"\"", "42", " 1"] {
        n += 1;
        let (mut b, _) = write_at(build(&tiles, c, &Default::default()), 0).map_err(|e| e.to_string())?;
        let h = parse_header(&b)?;
        let m = compress(code(c), v.as_bytes());
        let mo = b.len() as u64; b.extend(&m);
        b[24..32].copy_from_slice(&mo.to_le_bytes()); b[32..40].copy_from_slice(&(m.len() as u64).to_le_bytes());
        let _ = h;
        match quiet(|| PMTiles::from_bytes(&b).map(|p| p.num_tiles())) { Ok(Err(_)) => {}, Ok(Ok(_)) => return Err(format!("archive with metadata `{v}` ({c:?}) was opened")), Err(p) => return Err(format!("opening metadata `{v}` panicked: {p}")) }
        match quiet(|| block_on(PMTiles::from_async_reader(futures::io::Cursor::new(b.clone()))).map(|p| p.num_tiles())) { Ok(Err(_)) => {}, Ok(Ok(_)) => return Err(format!("async: archive with metadata `{v}` ({c:?}) was opened")), Err(p) => return Err(format!("async open panicked: {p}")) }
    } }
    let mut pm = build(&tiles, Compression::None, &Default::default()); pm.internal_compression = Compression::Unknown;
    match quiet(|| write_at(pm, 0)) { Ok(Err(_)) => {}, Ok(Ok(_)) => return Err("writing with Unknown internal compression succeeded".into()), Err(p) => return Err(format!("writing with Unknown compression panicked: {p}")) }
    let (mut b, _) = write_at(build(&tiles, Compression::None, &Default::default()), 0).map_err(|e| e.to_string())?;
    b[97] = 0;
    match quiet(|| PMTiles::from_bytes(&b).map(|p| p.num_tiles())) { Ok(Err(_)) => {}, Ok(Ok(_)) => return Err("opening an archive with Unknown internal compression succeeded".into()), Err(p) => return Err(format!("opening Unknown compression panicked: {p}")) }
    Ok(n)
}

// ------------------------------------------------------------------------------------------------ C04 / C10 / C16
type Model = BTreeMap<u64, Vec<u8>>;
fn check_model(pm: &mut PMTiles<Cursor<Vec<u8>>>, m: &Model, probe: &[u64], hist: &str) -> Result<(), String> {
    let mut ids: Vec<u64> = pm.tile_ids().into_iter().copied().collect(); ids.sort_unstable();
    let want: Vec<u64> = m.keys().copied().collect();
    if ids != want { return Err(format!("tile_ids() = {ids:?}, expected {want:?} after history [{hist}]")); }
    if pm.num_tiles() != m.len() { return Err(format!("num_tiles() = {}, expected {} after history [{hist}]", pm.num_tiles(), m.len())); }
    for id in probe { let got = pm.get_tile_by_id(*id).map_err(|e| format!("lookup({id}) failed: {e} after [{hist}]"))?;
        if got.as_ref() != m.get(id) { return Err(format!("lookup({id}) = {:?}, expected {:?} after history [{hist}]", got, m.get(id))); } }
    Ok(())
}
pub fn c04() -> Result<u64, String> {
    let mut n = 0u64;
    let contents: [&[u8]; 3] = [b"A", b"A", b"BB"];   // two colliding contents on purpose
    let ids = [3u64, 4, 5];
    // exhaustive: all histories of length <= 4 over {add(id,c), remove(id), reopen}, from empty
    let mut ops: Vec<(u8, u64, usize)> = Vec::new();
    for &i in &ids { for c in [0usize, 2] { ops.push((0, i, c)); } ops.push((1, i, 0)); }
    ops.push((2, 0, 0));
    let mut stack = vec![Vec::<usize>::new()];
    while let Some(h) = stack.pop() {
        if h.len() < 4 { for k in 0..ops.len() { let mut h2 = h.clone(); h2.push(k); stack.push(h2); } }
        if h.is_empty() { continue; }
        n += 1;
        let mut pm: PMTiles<Cursor<Vec<u8>>> = PMTiles::from_bytes(write_at(build(&BTreeMap::new(), Compression::None, &Default::default()), 0).unwrap().0).unwrap();
        let mut m = Model::new(); let mut hs = String::new();
        for &k in &h { let (op, id, c) = ops[k];
            match op { 0 => { pm.add_tile(id, contents[c].to_vec()).map_err(|e| e.to_string())?; m.insert(id, contents[c].to_vec()); hs += &format!("add({id},{:?}) ", contents[c]); }
                1 => { pm.remove_tile(id); m.remove(&id); hs += &format!("remove({id}) "); }
                _ => { let (b, _) = write_at(pm, 0).map_err(|e| format!("save failed after [{hs}]: {e}"))?; pm = PMTiles::from_bytes(b).map_err(|e| format!("reopen failed after [{hs}]: {e}"))?; hs += "save+reopen "; } }
            check_model(&mut pm, &m, &[2, 3, 4, 5, 6], &hs)?;
        }
    }
    // large contents that share their length and a long prefix (70 KiB / 300 KiB, differing in the last or a middle byte) are different tiles
    for size in [70_000usize, 300_000] { n += 1;
        let base: Vec<u8> = (0..size).map(|i| (i % 251) as u8).collect();
        let mut x = base.clone(); *x.last_mut().unwrap() ^= 1; let mut y = base.clone(); y[size - 3000] ^= 0x80;
        let mut pm: PMTiles<Cursor<Vec<u8>>> = PMTiles::from_bytes(write_at(build(&BTreeMap::new(), Compression::None, &Default::default()), 0).unwrap().0).unwrap();
        let mut m = Model::new(); let mut hs = String::new();
        for (id, c) in [(1u64, &base), (2, &x), (3, &y), (1, &x), (4, &base)] {
            pm.add_tile(id, c.clone()).map_err(|e| e.to_string())?; m.insert(id, c.clone()); hs += &format!("add({id}, {size}-byte content #{}) ", if c == &base { 0 } else if c == &x { 1 } else { 2 });
            check_model(&mut pm, &m, &[0, 1, 2, 3, 4, 5], &hs)?;
        }
        let (b, _) = write_at(pm, 0).map_err(|e| format!("save failed after [{hs}]: {e}"))?; pm = PMTiles::from_bytes(b).map_err(|e| format!("reopen failed after [{hs}]: {e}"))?; hs += "save+reopen ";
        check_model(&mut pm, &m, &[0, 1, 2, 3, 4, 5], &hs)?;
        pm.add_tile(5, y.clone()).map_err(|e| e.to_string())?; m.insert(5, y.clone()); pm.remove_tile(3); m.remove(&3); hs += "add(5, #2) remove(3) ";
        let (b, _) = write_at(pm, 0).map_err(|e| format!("save failed after [{hs}]: {e}"))?; pm = PMTiles::from_bytes(b).map_err(|e| format!("reopen failed after [{hs}]: {e}"))?; hs += "save+reopen ";
        check_model(&mut pm, &m, &[0, 1, 2, 3, 4, 5], &hs)?;
    }
    // an archive large enough to need leaf directories (also when compressed): every tile survives save+reopen, edits hit the right ids
    for (cnt, c) in [(6000usize, Compression::None), (4097, Compression::None), (30000, Compression::GZip)] { n += 1;
        let mut m: Model = (0..cnt as u64).map(|i| (i * 3 + (i % 7), vec![(i % 251) as u8, (i / 251) as u8, 7])).collect();
        let (b, _) = write_at(build(&m, c, &Default::default()), 0).map_err(|e| e.to_string())?;
        let mut pm = PMTiles::from_bytes(b).map_err(|e| format!("archive of {cnt} tiles does not re-open: {e}"))?;
        if pm.num_tiles() != m.len() { return Err(format!("archive of {cnt} tiles ({c:?}): {} tiles after save+reopen", pm.num_tiles())); }
        let last = *m.keys().next_back().unwrap(); let mid = *m.keys().nth(cnt / 2).unwrap();
        for id in [0u64, mid, last, *m.keys().nth(cnt - 2).unwrap(), *m.keys().nth(4096.min(cnt - 1)).unwrap()] { if pm.get_tile_by_id(id).map_err(|e| e.to_string())?.as_ref() != m.get(&id) { return Err(format!("archive of {cnt} tiles ({c:?}): tile {id} differs or is missing after save+reopen")); } }
        pm.remove_tile(mid); m.remove(&mid); pm.add_tile(last + 5, vec![4, 4]).map_err(|e| e.to_string())?; m.insert(last + 5, vec![4, 4]);
        let (b2, _) = write_at(pm, 0).map_err(|e| e.to_string())?; let mut pm2 = PMTiles::from_bytes(b2).map_err(|e| e.to_string())?;
        if pm2.num_tiles() != m.len() { return Err(format!("archive of {cnt} tiles ({c:?}) after remove+add+save+reopen: {} tiles, expected {}", pm2.num_tiles(), m.len())); }
        for id in [0u64, mid, last, last + 5] { if pm2.get_tile_by_id(id).map_err(|e| e.to_string())?.as_ref() != m.get(&id) { return Err(format!("archive of {cnt} tiles ({c:?}) after remove+add+save+reopen: lookup({id}) differs")); } }
    }
    // random long histories over a larger alphabet, starting from a foreign archive
    let mut r = Rng::new(seed() ^ 4);
    for round in 0..40 {
        let start = gen_tiles(&mut r, 6, 3);
        let fb = foreign_archive(&mut r, &start, 1 + (round % 4) as u8, if round % 2 == 0 { 0 } else { 2 }, false);
        let mut pm: PMTiles<Cursor<Vec<u8>>> = PMTiles::from_bytes(fb).map_err(|e| format!("foreign archive does not open: {e}"))?;
        let mut m: Model = start.clone(); let mut hs = String::from("open(foreign) ");
        let pool: Vec<Vec<u8>> = start.values().cloned().chain([vec![1], vec![1, 2], vec![9; 5]]).collect();
        for _ in 0..40 { n += 1;
            let id = r.below(14);
            match r.below(7) { 0 | 1 | 2 => { let c = r.pick(&pool).clone(); pm.add_tile(id, c.clone()).map_err(|e| e.to_string())?; hs += &format!("add({id},{c:?}) "); m.insert(id, c); }
                3 | 4 => { pm.remove_tile(id); m.remove(&id); hs += &format!("remove({id}) "); }
                5 => { let p = [0u64, 10, 127][hs.len() % 3];   // the archive is saved at stream position p and re-opened from there
                       let (b, _) = write_at(pm, p).map_err(|e| format!("save failed after [{hs}]: {e}"))?; pm = PMTiles::from_bytes(b[p as usize..].to_vec()).map_err(|e| format!("reopen failed after [{hs}]: {e}"))?; hs += &format!("save@{p}+reopen "); }
                _ => { let mut out = futures::io::Cursor::new(Vec::new()); let b0 = write_at(pm, 0).map_err(|e| e.to_string())?.0;
                       let apm = block_on(PMTiles::from_async_reader(futures::io::Cursor::new(b0))).map_err(|e| e.to_string())?;
                       block_on(apm.to_async_writer(&mut out)).map_err(|e| format!("async save failed after [{hs}]: {e}"))?;
                       pm = PMTiles::from_bytes(out.into_inner()).map_err(|e| format!("reopen after async save failed [{hs}]: {e}"))?; hs += "async save+reopen "; } }
            let probe: Vec<u64> = (0..15).collect();
            check_model(&mut pm, &m, &probe, &hs)?;
        }
    }
    Ok(n)
}

pub fn c10() -> Result<u64, String> {
    let mut r = Rng::new(seed() ^ 10);
    let mut n = 0u64;
    {   // retention while lookups happen in between: a content stays as long as one id refers to it (opened archive, duplicates, reads, removals)
        let mut want = Model::new(); for id in [3u64, 4, 9, 20] { want.insert(id, vec![5, 5, 5, 5]); } want.insert(7, vec![1, 2]); want.insert(8, vec![1, 2]);
        for c in COMPS { n += 1;
            let bytes = write_at(build(&want, c, &Default::default()), 0).map_err(|e| e.to_string())?.0;
            let mut pm = PMTiles::from_bytes(bytes).map_err(|e| e.to_string())?; let mut m = want.clone(); let mut hs = String::from("open ");
            for step in 0..6 {
                for id in [9u64, 4, 3, 20, 7, 8] { let got = pm.get_tile_by_id(id).map_err(|e| format!("lookup({id}) after [{hs}]: {e}"))?; if got.as_ref() != m.get(&id) { return Err(format!("lookup({id}) after [{hs}] returns {:?}, expected {:?} ({c:?})", got.as_ref().map(|v| v.len()), m.get(&id).map(|v| v.len()))); } }
                match step { 0 => { pm.remove_tile(20); m.remove(&20); hs += "lookups remove(20) "; } 1 => { pm.add_tile(30, vec![5, 5, 5, 5]).map_err(|e| e.to_string())?; m.insert(30, vec![5, 5, 5, 5]); hs += "lookups add(30, same content) "; }
                    2 => { pm.remove_tile(3); m.remove(&3); hs += "lookups remove(3) "; } 3 => { pm.remove_tile(8); m.remove(&8); hs += "lookups remove(8) "; } 4 => { pm.remove_tile(30); m.remove(&30); hs += "lookups remove(30) "; } _ => {} }
            }
            let out = write_at(pm, 0).map_err(|e| format!("save after [{hs}]: {e}"))?.0;
            let p = parse_archive(&out).map_err(|e| format!("archive written after [{hs}] invalid: {e}"))?;
            for (id, cnt) in &m { if p.bytes_of(&out, *id) != Some(&cnt[..]) { return Err(format!("after [{hs}] and save, tile {id} is missing or has other bytes ({c:?})")); } }
            if p.tiles.len() != m.len() { return Err(format!("after [{hs}] and save the directories address {} ids, expected {} ({c:?})", p.tiles.len(), m.len())); }
        }
    }
    {   // a foreign archive that stores the same content at several offsets, opened and saved WITHOUT edits: the output stores each distinct content once
        let mut want = Model::new(); for id in 0u64..3 { want.insert(id, vec![9, 9, 9, 9]); } for id in 4u64..7 { want.insert(id, vec![9, 9, 9, 9]); } want.insert(10, vec![1, 2, 3]); want.insert(12, vec![1, 2, 3]);
        for ic in 1u8..=4 { n += 1;
            // every id gets its own copy of its content in the tile data section
            let mut data = Vec::new(); let mut es = Vec::new(); for (id, v) in &want { es.push(E { id: *id, off: data.len() as u64, len: v.len() as u32, run: 1 }); data.extend(v); }
            let root = compress(ic, &dir_enc(&es)); let meta = compress(ic, b"{}");
            let h = Hdr { root_off: 127, root_len: root.len() as u64, meta_off: 127 + root.len() as u64, meta_len: meta.len() as u64, leaf_off: 127 + (root.len() + meta.len()) as u64, leaf_len: 0,
                data_off: 127 + (root.len() + meta.len()) as u64, data_len: data.len() as u64, n_addr: want.len() as u64, n_entries: es.len() as u64, n_contents: es.len() as u64, clustered: 1, ic, tc: 1, tt: 1,
                min_zoom: 0, max_zoom: 3, min_lon: 0, min_lat: 0, max_lon: 0, max_lat: 0, center_zoom: 0, c_lon: 0, c_lat: 0 };
            let mut b = build_header(&h); b.extend(&root); b.extend(&meta); b.extend(&data);
            let pm = PMTiles::from_bytes(b).map_err(|e| format!("foreign archive with repeated contents does not open: {e}"))?;
            let out = write_at(pm, 0).map_err(|e| e.to_string())?.0;
            let p = parse_archive(&out).map_err(|e| format!("re-saved foreign archive invalid: {e}"))?;
            let distinct: usize = 4 + 3;
            if p.hdr.data_len as usize != distinct { return Err(format!("a foreign archive that stores 2 distinct contents 8 times, opened and saved without edits: tile data section has {} bytes, {} expected (each distinct content once) (compression code {ic})", p.hdr.data_len, distinct)); }
            if p.entries.len() != 4 { return Err(format!("re-saved foreign archive: {} directory entries, 4 expected (runs 0..=2, 4..=6 and the single ids 10, 12) (compression code {ic})", p.entries.len())); }
            for (id, cnt) in &want { if p.bytes_of(&out, *id) != Some(&cnt[..]) { return Err(format!("re-saved foreign archive: tile {id} differs")); } }
        }
    }
    {   // runs longer than 2^16 and identical contents whose ids are a multiple of 2^32 (plus a run length) apart
        let mut cases: Vec<(Model, &str)> = Vec::new();
        let mut long_run = Model::new(); for i in 0..70_000u64 { long_run.insert(100 + i, vec![7, 7, 7]); } long_run.insert(5, vec![1]); cases.push((long_run, "a run of 70000 identical consecutive tiles"));
        let mut far = Model::new(); far.insert(10, vec![4, 2]); far.insert(11, vec![4, 2]); far.insert(10 + (1u64 << 32) + 2, vec![4, 2]); far.insert(10 + (3u64 << 32) + 3, vec![4, 2]); cases.push((far, "identical contents at ids k*2^32 + run length after a run"));
        for (want, what) in cases { n += 1;
            let bytes = write_at(build(&want, Compression::GZip, &Default::default()), 0).map_err(|e| e.to_string())?.0;
            let p = parse_archive(&bytes).map_err(|e| format!("written archive invalid ({what}): {e}"))?;
            for (id, cnt) in want.iter().step_by(997).chain(want.iter().rev().take(3)) { if p.bytes_of(&bytes, *id) != Some(&cnt[..]) { return Err(format!("tile {id} has wrong bytes or is missing ({what})")); } }
            if p.tiles.len() != want.len() { return Err(format!("the directories address {} ids, {} tiles were added ({what})", p.tiles.len(), want.len())); }
            for w in p.entries.windows(2) { if w[0].id + w[0].run as u64 == w[1].id && w[0].off == w[1].off && w[0].len == w[1].len { return Err(format!("adjacent entries {:?} {:?} could be merged ({what})", w[0], w[1])); } }
        }
    }
    for round in 0..150 {
        let k = [1usize, 2, 3, 5, 8, 30][round % 6];
        let tiles = gen_tiles(&mut r, k, 2);
        for mode in 0..4 { n += 1;
            // mode 0: all in memory; 1: all reader-backed (rewrite of an opened archive); 2: opened archive + in-memory duplicates/edits;
            // 3: rewrite of a FOREIGN archive (contents in random order, prefixes sharing an offset with a longer content, unknown statistics)
            let c = COMPS[round % 4];
            let (b0, _) = write_at(build(&tiles, c, &Default::default()), 0).map_err(|e| e.to_string())?;
            let mut want = tiles.clone();
            let bytes = match mode { 0 => b0, 1 => write_at(PMTiles::from_bytes(b0).map_err(|e| e.to_string())?, 0).map_err(|e| e.to_string())?.0,
                3 => { let fb = foreign_archive(&mut r, &tiles, 1 + (round % 4) as u8, [0, 2, 3][round % 3], round % 5 == 0);
                       write_at(PMTiles::from_bytes(fb).map_err(|e| format!("foreign archive does not open: {e}"))?, 0).map_err(|e| e.to_string())?.0 }
                _ => { let mut pm = PMTiles::from_bytes(b0).map_err(|e| e.to_string())?;
                       let ids: Vec<u64> = tiles.keys().copied().collect();
                       for j in 0..1 + r.below(3) { let src = *r.pick(&ids); let dst = ids.last().unwrap() + 1 + j + r.below(2); let cnt = tiles[&src].clone(); pm.add_tile(dst, cnt.clone()).unwrap(); want.insert(dst, cnt); }
                       write_at(pm, 0).map_err(|e| e.to_string())?.0 } };
            let p = parse_archive(&bytes).map_err(|e| format!("written archive invalid: {e}"))?;
            let mut distinct: Vec<&Vec<u8>> = want.values().collect(); distinct.sort(); distinct.dedup();
            let total: u64 = distinct.iter().map(|c| c.len() as u64).sum();
            let desc = format!("tiles {:?} (mode {mode}: {})", want.iter().map(|(k, v)| (*k, v.len())).collect::<Vec<_>>(), ["in memory", "reader-backed", "reader-backed + in-memory duplicates", "rewrite of a foreign archive"][mode]);
            if p.hdr.data_len != total { return Err(format!("tile-data section has {} bytes, distinct contents sum to {total}: {desc}", p.hdr.data_len)); }
            if p.hdr.n_contents != distinct.len() as u64 { return Err(format!("header counts {} contents, there are {} distinct: {desc}", p.hdr.n_contents, distinct.len())); }
            let mut where_: BTreeMap<&Vec<u8>, (u64, u32)> = BTreeMap::new();
            for (id, cnt) in &want { let loc = *p.tiles.get(id).ok_or(format!("tile {id} missing: {desc}"))?;
                if p.bytes_of(&bytes, *id) != Some(&cnt[..]) { return Err(format!("tile {id} has wrong bytes: {desc}")); }
                if let Some(prev) = where_.insert(cnt, loc) { if prev != loc { return Err(format!("identical contents stored at different offsets {prev:?} / {loc:?}: {desc}")); } } }
            for w in p.entries.windows(2) { if w[0].id + w[0].run as u64 == w[1].id && w[0].off == w[1].off && w[0].len == w[1].len { return Err(format!("adjacent entries {:?} {:?} could be merged: {desc}", w[0], w[1])); } }
        }
    }
    Ok(n)
}

pub fn c16() -> Result<u64, String> {
    let mut r = Rng::new(seed() ^ 16);
    let mut n = 0u64;
    for round in 0..60 { n += 1;
        let tiles = gen_tiles(&mut r, 1 + round % 9, 3); let c = COMPS[round % 4];
        let mut meta = serde_json::Map::new(); meta.insert("b".into(), 1.into()); meta.insert("a".into(), "x".into());
        let a = write_at(build(&tiles, c, &meta), 0).map_err(|e| e.to_string())?.0;
        // reversed insertion order with a detour
        let mut pm = PMTiles::new(TileType::Png, Compression::None); pm.internal_compression = c;
        let mut meta2 = serde_json::Map::new(); meta2.insert("a".into(), "x".into()); meta2.insert("b".into(), 1.into()); pm.meta_data = meta2;
        for (k, v) in tiles.iter().rev() { pm.add_tile(*k, vec![0xFF]).unwrap(); pm.add_tile(*k + 1000, v.clone()).unwrap(); pm.add_tile(*k, v.clone()).unwrap(); pm.remove_tile(*k + 1000); }
        // the import runs twice for some ids (re-adding the content a tile already has), one id is replaced and restored
        if round % 2 == 0 { for (k, v) in tiles.iter().take(1 + round % 3) { pm.add_tile(*k, v.clone()).unwrap(); } }
        if round % 3 == 0 { let (k, v) = tiles.iter().next_back().unwrap(); pm.add_tile(*k, vec![1, 2, 3, 4]).unwrap(); pm.add_tile(*k, v.clone()).unwrap(); pm.add_tile(*k, v.clone()).unwrap(); }
        let b = write_at(pm, 0).map_err(|e| e.to_string())?.0;
        if a != b { return Err(format!("same logical content, different bytes (insertion order / detour / re-added ids): tiles {:?}, {c:?}", tiles.keys().collect::<Vec<_>>())); }
        // the same logical content written at other start positions: the archive bytes (from the start position on) are the same
        for p2 in [16_300u64, 70_001] { let (b2, _) = write_at(build(&tiles, c, &meta), p2).map_err(|e| e.to_string())?;
            if b2[p2 as usize..] != a[..] { return Err(format!("same logical content, different bytes when written at start position {p2} instead of 0 ({} tiles, {c:?})", tiles.len())); } }
        {   // settings at the edge of their fields (zooms are plain bytes: 0..=255) are read back and re-written as stored
            let mut pe = build(&tiles, c, &meta); pe.min_zoom = [0u8, 31, 32, 255][round % 4]; pe.max_zoom = [255u8, 32, 33, 31][round % 4]; pe.center_zoom = [200u8, 0, 32, 255][round % 4];
            pe.tile_type = TileType::Unknown; pe.tile_compression = Compression::Unknown; pe.max_longitude = 214.7483647; pe.min_latitude = -214.7483648;
            let e1 = write_at(pe, 0).map_err(|e| e.to_string())?.0;
            let back = PMTiles::from_bytes(e1.clone()).map_err(|e| format!("archive with settings at the edge of their fields does not open: {e}"))?;
            let (z0, z1, z2) = (back.min_zoom, back.max_zoom, back.center_zoom);
            let e2 = write_at(back, 0).map_err(|e| e.to_string())?.0;
            if e1 != e2 { let i = e1.iter().zip(&e2).position(|(x, y)| x != y).unwrap_or(e1.len().min(e2.len())); return Err(format!("rewriting a just-read archive with min/max/center zoom {:?} (read back as {:?}) changes byte {i} ({c:?})", ([0u8, 31, 32, 255][round % 4], [255u8, 32, 33, 31][round % 4], [200u8, 0, 32, 255][round % 4]), (z0, z1, z2))); }
        }
        let c2 = write_at(PMTiles::from_bytes(a.clone()).map_err(|e| e.to_string())?, 0).map_err(|e| e.to_string())?.0;
        if a != c2 { let i = a.iter().zip(&c2).position(|(x, y)| x != y).unwrap_or(a.len().min(c2.len())); return Err(format!("rewriting an archive that was just read back changes byte {i} ({c:?}, {} tiles)", tiles.len())); }
        let mut out = futures::io::Cursor::new(Vec::new());
        block_on(block_on(PMTiles::from_async_reader(futures::io::Cursor::new(a.clone()))).map_err(|e| e.to_string())?.to_async_writer(&mut out)).map_err(|e| e.to_string())?;
        if c == Compression::None && out.into_inner() != a { return Err("async rewrite differs from sync bytes (no codec involved)".into()); }
    }
    // two ids share one content, one of them is re-added with the same bytes, the other one is removed or replaced afterwards:
    // the history must not show in the bytes
    for round in 0..24usize { n += 1;
        let tiles = gen_tiles(&mut r, 1 + round % 5, 3); let c = COMPS[round % 4];
        let last = *tiles.keys().next_back().unwrap(); let (k1, k2) = (last + 2, last + 9); let x = vec![7u8, round as u8, 1];
        let mut pm = build(&tiles, c, &Default::default());
        pm.add_tile(k1, x.clone()).unwrap(); pm.add_tile(k2, x.clone()).unwrap();
        let (keep, other) = if round % 2 == 0 { (k1, k2) } else { (k2, k1) };
        pm.add_tile(keep, x.clone()).unwrap();
        if round % 4 < 2 { pm.remove_tile(other); } else { pm.add_tile(other, vec![9, 9]).unwrap(); }
        let a = write_at(pm, 0).map_err(|e| e.to_string())?.0;
        let mut all = tiles.clone(); all.insert(keep, x.clone()); if round % 4 >= 2 { all.insert(other, vec![9, 9]); }
        let b = write_at(build(&all, c, &Default::default()), 0).map_err(|e| e.to_string())?.0;
        if a != b { return Err(format!("ids {k1} and {k2} share a content, {keep} is re-added with the same bytes, then {other} is {}: the archive serialises to {} bytes, the same content built directly to {} bytes ({c:?})", if round % 4 < 2 { "removed" } else { "replaced" }, a.len(), b.len())); }
    }
    // memory vs backing placement: open, add a tile duplicating a backing tile's content, save; compare with the same content built in one go
    for round in 0..40 { n += 1;
        let tiles = gen_tiles(&mut r, 2 + round % 6, 2); let c = COMPS[round % 4];
        let base = write_at(build(&tiles, c, &Default::default()), 0).map_err(|e| e.to_string())?.0;
        let mut pm = PMTiles::from_bytes(base).map_err(|e| e.to_string())?;
        let ids: Vec<u64> = tiles.keys().copied().collect();
        let src = ids[round % ids.len()]; let dst = if round % 2 == 0 { ids.last().unwrap() + 1 } else { ids.last().unwrap() + 7 };
        pm.add_tile(dst, tiles[&src].clone()).unwrap();
        let a = write_at(pm, 0).map_err(|e| e.to_string())?.0;
        let mut all = tiles.clone(); all.insert(dst, tiles[&src].clone());
        let b = write_at(build(&all, c, &Default::default()), 0).map_err(|e| e.to_string())?.0;
        if a != b { return Err(format!("an archive opened from bytes plus one in-memory tile {dst} duplicating backing tile {src} serialises to {} bytes, the same content built in memory to {} bytes ({c:?})", a.len(), b.len())); }
    }
    {
        let base = write_at(build(&gen_tiles(&mut r, 3, 2), Compression::None, &Default::default()), 0).map_err(|e| e.to_string())?.0;
        for k in 0..3000u32 { n += 1;
            let v: i32 = if k < 1000 { k as i32 * 7 + 1 } else { r.next() as i32 };
            let mut a = base.clone(); a[102..106].copy_from_slice(&v.to_le_bytes()); a[123..127].copy_from_slice(&v.wrapping_neg().to_le_bytes());
            let b = write_at(PMTiles::from_bytes(a.clone()).map_err(|e| e.to_string())?, 0).map_err(|e| e.to_string())?.0;
            if a != b { return Err(format!("an archive whose stored longitude is {v} is rewritten with stored value {} after being read back", i32::from_le_bytes(b[102..106].try_into().unwrap()))); }
        }
    }
    // coordinates: rewrite idempotence over stored values
    for v in [21i32, -21, 1, i32::MAX, i32::MIN, 1_800_000_001, -1_799_999_999, 123_456_789] { n += 1;
        let mut pm = PMTiles::new(TileType::Png, Compression::None); pm.internal_compression = Compression::None;
        pm.min_longitude = f64::from(v) / 10_000_000.0;
        let a = write_at(pm, 0).map_err(|e| e.to_string())?.0;
        let b = write_at(PMTiles::from_bytes(a.clone()).map_err(|e| e.to_string())?, 0).map_err(|e| e.to_string())?.0;
        if a != b { return Err(format!("stored coordinate {v} drifts when the archive is read and written again")); }
    }
    Ok(n)
}

// ------------------------------------------------------------------------------------------------ C01 / C02 / C03 / C18 / C20
fn same_content(pm: &mut PMTiles<Cursor<Vec<u8>>>, want: &Model, what: &str) -> Result<(), String> {
    let mut ids: Vec<u64> = pm.tile_ids().into_iter().copied().collect(); ids.sort_unstable();
    if ids != want.keys().copied().collect::<Vec<_>>() { return Err(format!("{what}: tile ids differ: got {} ids, expected {}", ids.len(), want.len())); }
    for (k, v) in want { if pm.get_tile_by_id(*k).map_err(|e| format!("{what}: lookup({k}): {e}"))?.as_ref() != Some(v) { return Err(format!("{what}: content of tile {k} differs")); } }
    for k in [want.keys().next_back().map_or(0, |k| k + 1), u64::MAX] { if pm.get_tile_by_id(k).map_err(|e| e.to_string())?.is_some() { return Err(format!("{what}: lookup({k}) of an absent id returned bytes")); } }
    Ok(())
}
/// many tiles with irregular ids and sizes: their directory does not compress well, so compressed archives need leaf directories too
fn noisy_tiles(n: usize, r: &mut Rng) -> Model { let mut m = Model::new(); let mut id = 0u64; for _ in 0..n { id += 1 + r.below(900); let l = 1 + r.below(23) as usize; m.insert(id, (0..l).map(|_| r.below(256) as u8).collect()); } m }
fn big_tiles(n: usize) -> Model { (0..n as u64).map(|i| (i * 3 + (i % 7), vec![(i % 251) as u8, (i / 251) as u8, 7])).collect() }

pub fn c01_c02_c18() -> Result<u64, String> {
    let mut r = Rng::new(seed() ^ 1);
    let mut n = 0u64;
    let mut cases: Vec<(Model, Compression, u64)> = Vec::new();
    for round in 0..48 { cases.push((gen_tiles(&mut r, [0, 1, 2, 5, 9, 40][round % 6], 1 << (round % 30)), COMPS[round % 4], [0u64, 1, 10, 127, 4096, 77][round % 6])); }
    { let mut z31 = Model::new(); for id in [util::tile_id(31, 0, 0), util::tile_id(31, 0, 0) + 5, util::tile_id(31, (1 << 31) - 1, (1 << 31) - 1), util::tile_id(31, 1 << 30, 3), util::tile_id(30, 9, 9), util::tile_id(27, 1, 2), 6148914691236517204 /* the last id of zoom 31 */, 6148914691236517203] { z31.insert(id, vec![(id % 251) as u8, 1, 2]); } cases.push((z31, Compression::GZip, 0)); }
    cases.push((big_tiles(6000), Compression::None, 20_000)); cases.push((noisy_tiles(12000, &mut r), Compression::GZip, 70_001));
    cases.push((big_tiles(6000), Compression::None, 0)); cases.push((big_tiles(4080), Compression::None, 24)); cases.push((big_tiles(30000), Compression::GZip, 3)); cases.push((noisy_tiles(12000, &mut r), Compression::GZip, 11)); cases.push((noisy_tiles(9000, &mut r), Compression::Brotli, 0));
    {   // a pre-filled stream that is LONGER than P + archive: the writer must leave the position at the archive's end
        let tiles = gen_tiles(&mut r, 4, 2);
        for p in [0u64, 10] { n += 1;
            let (arch, _) = write_at(build(&tiles, Compression::None, &Default::default()), 0).map_err(|e| e.to_string())?;
            let mut out = Cursor::new(vec![0x77u8; p as usize + arch.len() + 500]); out.seek(SeekFrom::Start(p)).unwrap();
            build(&tiles, Compression::None, &Default::default()).to_writer(&mut out).map_err(|e| e.to_string())?;
            if out.position() != p + arch.len() as u64 { return Err(format!("writing at P={p} into a pre-filled stream of {} bytes leaves the position at {}, the archive ends at {}", p as usize + arch.len() + 500, out.position(), p + arch.len() as u64)); }
            let buf = out.into_inner(); if buf[p as usize..p as usize + arch.len()] != arch[..] { return Err(format!("archive written at P={p} into a pre-filled stream differs from the archive written into an empty stream")); }
            if buf[p as usize + arch.len()..].iter().any(|&x| x != 0x77) || buf[..p as usize].iter().any(|&x| x != 0x77) { return Err("bytes outside [P, P+len) of a pre-filled stream were modified".into()); }
        }
    }
    for (tiles, c, p) in cases { n += 1;
        ctx(format!("writing/reading an archive of {} tiles, {c:?}, start position {p}", tiles.len()));
        let mut meta = serde_json::Map::new(); meta.insert("k".into(), serde_json::json!({"n": [1, 2, {"x": null}]}));
        let mk = || { let mut pm = build(&tiles, c, &meta);
            pm.min_zoom = 1; pm.max_zoom = 17; pm.center_zoom = 9; pm.tile_compression = Compression::Brotli; pm.tile_type = TileType::WebP;
            pm.min_longitude = -122.41941558; pm.min_latitude = 139.6917064; pm.max_longitude = 21e-7; pm.max_latitude = -0.00000015; pm.center_longitude = 179.99999995; pm.center_latitude = -85.05112878;
            pm };
        let pm = mk();
        let desc = format!("{} tiles, {c:?}, start position {p}", tiles.len());
        let (bytes, pos) = write_at(pm, p).map_err(|e| format!("write failed ({desc}): {e}"))?;
        if bytes[..p as usize].iter().any(|&x| x != 0xEE) { return Err(format!("bytes before the start position were modified ({desc})")); }
        if pos as usize != bytes.len() { return Err(format!("stream left at {pos}, archive ends at {} ({desc})", bytes.len())); }
        let arch = &bytes[p as usize..];
        if tiles.len() <= 6000 && n % 3 == 0 {   // the same archive at another start position has the same bytes (offsets are relative to the start)
            for p2 in [16_000u64, 70_001] { if p2 == p { continue; }
                let pm2 = mk();
                let (b2, _) = write_at(pm2, p2).map_err(|e| format!("write failed at start position {p2} ({desc}): {e}"))?;
                if &b2[p2 as usize..] != arch { return Err(format!("the same archive written at start position {p2} has other bytes than at start position {p} ({desc})")); } } }
        let parsed = parse_archive(arch).map_err(|e| format!("independent reader rejects the written archive ({desc}): {e}"))?;
        for (k, v) in &tiles { if parsed.bytes_of(arch, *k) != Some(&v[..]) { return Err(format!("spec lookup of tile {k} returns other bytes than were added ({desc})")); } }
        if parsed.tiles.len() != tiles.len() { return Err(format!("directories address {} tiles, {} were added ({desc})", parsed.tiles.len(), tiles.len())); }
        if parsed.meta != serde_json::Value::Object(meta.clone()) { return Err(format!("metadata differs ({desc})")); }
        let h = &parsed.hdr;
        let near = |d: f64| (d * 1e7).round() as i32;
        if [h.min_lon, h.min_lat, h.max_lon, h.max_lat, h.c_lon, h.c_lat] != [near(-122.41941558), near(139.6917064), near(21e-7), near(-0.00000015), near(179.99999995), near(-85.05112878)] {
            return Err(format!("coordinates are not stored as the nearest multiple of 1e-7: {:?}", [h.min_lon, h.min_lat, h.max_lon, h.max_lat, h.c_lon, h.c_lat])); }
        if (h.min_zoom, h.max_zoom, h.center_zoom, h.tc, h.tt, h.ic) != (1, 17, 9, 3, 4, code(c)) { return Err(format!("header settings differ ({desc})")); }
        let mut back = PMTiles::from_bytes(arch.to_vec()).map_err(|e| format!("reading the written bytes from P fails ({desc}): {e}"))?;
        same_content(&mut back, &tiles, &format!("write->read ({desc})"))?;
        if back.meta_data != meta || back.min_zoom != 1 || back.max_zoom != 17 || back.center_zoom != 9 || back.tile_type != TileType::WebP || back.tile_compression != Compression::Brotli || back.internal_compression != c {
            return Err(format!("metadata / settings differ after write->read ({desc})")); }
        if (back.min_longitude - f64::from(near(-122.41941558)) / 1e7).abs() > 1e-12 { return Err("coordinate does not come back as the nearest multiple of 1e-7".into()); }
        if tiles.len() <= 50 { let ab = block_on(PMTiles::from_async_reader(futures::io::Cursor::new(arch.to_vec()))).map_err(|e| format!("async open: {e}"))?; if ab.num_tiles() != tiles.len() { return Err("async open sees another tile count".into()); } }
        // SECOND GENERATION: the opened archive (tiles backed by the reader) saved again, unedited and edited, is a valid archive too
        if tiles.len() <= 6000 {
            let (b2, _) = write_at(back, p).map_err(|e| format!("saving the re-opened archive fails ({desc}): {e}"))?;
            let a2 = &b2[p as usize..];
            let p2 = parse_archive(a2).map_err(|e| format!("independent reader rejects the archive saved a second time (open, save) ({desc}): {e}"))?;
            for (k, v) in &tiles { if p2.bytes_of(a2, *k) != Some(&v[..]) { return Err(format!("second generation: spec lookup of tile {k} returns other bytes ({desc})")); } }
            if p2.tiles.len() != tiles.len() { return Err(format!("second generation addresses {} tiles, expected {} ({desc})", p2.tiles.len(), tiles.len())); }
            let mut ed = PMTiles::from_bytes(arch.to_vec()).map_err(|e| e.to_string())?; let mut want = tiles.clone();
            let top = want.keys().next_back().map_or(0, |k| k + 1);
            ed.add_tile(top + 3, vec![9, 9, 9, 1]).map_err(|e| e.to_string())?; want.insert(top + 3, vec![9, 9, 9, 1]);
            if let Some((k0, _)) = tiles.iter().next() { ed.add_tile(*k0, vec![5, 4, 3]).map_err(|e| e.to_string())?; want.insert(*k0, vec![5, 4, 3]); }
            if let Some((k1, _)) = tiles.iter().nth(1) { ed.remove_tile(*k1); want.remove(k1); }
            if let Some((k2, v2)) = tiles.iter().nth(2) { ed.add_tile(top + 9, v2.clone()).map_err(|e| e.to_string())?; want.insert(top + 9, v2.clone()); }
            let (b3, _) = write_at(ed, p).map_err(|e| format!("saving the edited re-opened archive fails ({desc}): {e}"))?;
            let a3 = &b3[p as usize..];
            let p3 = parse_archive(a3).map_err(|e| format!("independent reader rejects the archive saved after open + add/replace/remove ({desc}): {e}"))?;
            for (k, v) in &want { if p3.bytes_of(a3, *k) != Some(&v[..]) { return Err(format!("edited second generation: spec lookup of tile {k} returns other bytes ({desc})")); } }
            if p3.tiles.len() != want.len() { return Err(format!("edited second generation addresses {} tiles, expected {} ({desc})", p3.tiles.len(), want.len())); }
        }
    }
    Ok(n)
}

pub fn c03_c11_c20() -> Result<u64, String> {
    let mut r = Rng::new(seed() ^ 3);
    let mut n = 0u64;
    // C03: lookup in a single directory finds the entry whose run covers the id, and no other
    for round in 0..200 {
        let es = gen_dir(&mut r, 1 + (round % 9), round % 4 == 0);
        let mut ents = to_entries(&es);
        if round % 3 == 0 { let k = r.below(ents.len() as u64 + 1) as usize; let id = if k < ents.len() { ents[k].tile_id } else { ents.last().map(|e| e.tile_id.saturating_add(e.run_length as u64)).unwrap_or(0) }; ents.insert(k, Entry { tile_id: id, offset: 5, length: 9, run_length: 0 }); }
        let d = Directory::from(ents.clone());
        let mut probes = vec![0u64, u64::MAX];
        for e in &ents { let end = e.tile_id.saturating_add(e.run_length as u64); probes.extend([e.tile_id, e.tile_id.saturating_sub(1), end, end.saturating_sub(1), end.saturating_add(1)]); }
        for id in probes { n += 1;
            let want = ents.iter().find(|e| e.run_length != 0 && e.tile_id <= id && id < e.tile_id.saturating_add(e.run_length as u64));
            let got = d.find_entry_for_tile_id(id);
            let same = match (want, got) { (None, None) => true, (Some(a), Some(b)) => a.tile_id == b.tile_id && a.offset == b.offset && a.length == b.length && a.run_length == b.run_length, _ => false };
            if !same { return Err(format!("find_entry_for_tile_id({id}) in directory {:?} = {:?}, expected {:?}", es, got.map(|e| (e.tile_id, e.run_length)), want.map(|e| (e.tile_id, e.run_length)))); }
        }
    }
    for round in 0..120 {
        let tiles = gen_tiles(&mut r, [1, 2, 4, 9, 25, 60][round % 6], 1 + (round % 5) as u64);
        let ic = 1 + (round % 4) as u8;
        let b = foreign_archive(&mut r, &tiles, ic, [0, 1, 2, 3, 7][round % 5], round % 3 == 0);
        let desc = format!("foreign archive: {} tiles, compression code {ic}, leaf size {}, nested {}", tiles.len(), [0, 1, 2, 3, 7][round % 5], round % 3 == 0);
        parse_archive_foreign(&b).map_err(|e| format!("generator bug: {e}"))?;
        let mut pm = PMTiles::from_bytes(b.clone()).map_err(|e| format!("spec-valid {desc} does not open: {e}"))?;
        same_content(&mut pm, &tiles, &desc)?;
        if pm.meta_data.get("name") != Some(&"foreign".into()) || pm.min_zoom != 1 || pm.max_zoom != 9 || pm.center_zoom != 4 { return Err(format!("settings/metadata not reported as stored ({desc})")); }
        n += 1;
        // C11: ranges of every bound kind steered onto interesting ids
        let ids: Vec<u64> = tiles.keys().copied().collect();
        let mut pts = vec![0u64, 1, u64::MAX, u64::MAX - 1]; for &i in ids.iter().take(12) { pts.extend([i, i + 1, i.saturating_sub(1)]); }
        use std::ops::Bound::*;
        for _ in 0..40 { n += 1;
            let a = *r.pick(&pts); let z = *r.pick(&pts);
            let lo = match r.below(3) { 0 => Included(a), 1 => Excluded(a), _ => Unbounded };
            let hi = match r.below(3) { 0 => Included(z), 1 => Excluded(z), _ => Unbounded };
            let inr = |x: u64| (match lo { Included(v) => x >= v, Excluded(v) => x > v, Unbounded => true }) && (match hi { Included(v) => x <= v, Excluded(v) => x < v, Unbounded => true });
            let want: Model = tiles.iter().filter(|(k, _)| inr(**k)).map(|(k, v)| (*k, v.clone())).collect();
            let part = quiet(|| PMTiles::from_bytes_partially(b.clone(), (lo, hi))).map_err(|p| format!("partial open with range ({lo:?}, {hi:?}) panicked: {p} ({desc})"))?;
            let mut part = part.map_err(|e| format!("partial open with range ({lo:?}, {hi:?}) fails although the full open succeeds: {e} ({desc})"))?;
            same_content(&mut part, &want, &format!("partial open with range ({lo:?}, {hi:?}) of {desc}"))?;
        }
    }
    // C03: foreign archives whose directories are very regular (consecutive ids, equal lengths, back-to-back offsets) compress to far less than one byte per entry
    for ic in 2u8..=4 { for cnt in [400usize, 3000] { n += 1;
        let tiles: Model = (0..cnt as u64).map(|i| (i, vec![(i % 251) as u8, (i / 251) as u8, 3])).collect();
        let b = { let mut data = Vec::new(); let mut es = Vec::new(); for (id, v) in &tiles { es.push(E { id: *id, off: data.len() as u64, len: v.len() as u32, run: 1 }); data.extend(v); }
            let root = compress(ic, &dir_enc(&es)); let meta = compress(ic, b"{\"name\":\"foreign\"}"); let roff = 127u64; let moff = roff + root.len() as u64; let doff = moff + meta.len() as u64;
            if root.len() >= cnt { return Err(format!("generator bug: the regular directory of {cnt} entries compresses to {} bytes only", root.len())); }
            let h = Hdr { root_off: roff, root_len: root.len() as u64, meta_off: moff, meta_len: meta.len() as u64, leaf_off: doff, leaf_len: 0, data_off: doff, data_len: data.len() as u64,
                n_addr: tiles.len() as u64, n_entries: es.len() as u64, n_contents: es.len() as u64, clustered: 1, ic, tc: 1, tt: 1, min_zoom: 0, max_zoom: 3, min_lon: 0, min_lat: 0, max_lon: 0, max_lat: 0, center_zoom: 0, c_lon: 0, c_lat: 0 };
            let mut b = build_header(&h); b.extend(&root); b.extend(&meta); b.extend(&data); b };
        parse_archive_foreign(&b).map_err(|e| format!("generator bug: {e}"))?;
        let mut pm = PMTiles::from_bytes(b.clone()).map_err(|e| format!("spec-valid foreign archive with {cnt} very regular entries (compression code {ic}) does not open: {e}"))?;
        if pm.num_tiles() != cnt { return Err(format!("foreign archive with {cnt} regular entries: {} tiles seen", pm.num_tiles())); }
        for id in [0u64, 1, cnt as u64 / 2, cnt as u64 - 1] { if pm.get_tile_by_id(id).map_err(|e| e.to_string())?.as_ref() != tiles.get(&id) { return Err(format!("foreign archive with {cnt} regular entries: tile {id} differs")); } }
        let a = block_on(PMTiles::from_async_reader(futures::io::Cursor::new(b))).map_err(|e| format!("async: spec-valid foreign archive with {cnt} very regular entries (compression code {ic}) does not open: {e}"))?;
        if a.num_tiles() != cnt { return Err("async open sees another tile count".into()); }
    } }
    // C11: ranges that lie strictly INSIDE a run of equal tiles, and ranges that start behind the last id of zoom 31
    {
        use std::ops::Bound::*;
        const LAST: u64 = 6148914691236517204;
        let mut tiles = Model::new();
        for id in 100u64..140 { tiles.insert(id, vec![7, 7, 7]); }            // one run of 40
        for id in 200u64..203 { tiles.insert(id, vec![8]); }                  // one run of 3
        tiles.insert(5, vec![1]); tiles.insert(150, vec![2, 2]);
        for id in [LAST - 1, LAST, LAST + 1, LAST + 2, LAST + 9, 1u64 << 63, u64::MAX - 2, u64::MAX - 1] { tiles.insert(id, vec![(id % 200) as u8, 3]); }
        for c in COMPS {
            let (b, _) = write_at(build(&tiles, c, &Default::default()), 0).map_err(|e| e.to_string())?;
            let ranges: Vec<(std::ops::Bound<u64>, std::ops::Bound<u64>)> = vec![
                (Included(110), Included(120)), (Included(101), Included(101)), (Excluded(100), Excluded(139)), (Included(138), Excluded(139)), (Included(201), Included(201)), (Excluded(200), Excluded(202)),
                (Included(120), Included(201)), (Included(139), Included(200)), (Included(130), Unbounded), (Unbounded, Included(110)),
                (Included(LAST + 1), Unbounded), (Excluded(LAST), Unbounded), (Included(LAST + 2), Included(u64::MAX - 2)), (Included(1 << 63), Unbounded), (Excluded(LAST + 1), Excluded(u64::MAX - 1)), (Included(LAST), Included(LAST + 1)),
                (Included(u64::MAX - 1), Unbounded), (Included(u64::MAX), Unbounded),
            ];
            for (lo, hi) in ranges { n += 1;
                let inr = |x: u64| (match lo { Included(v) => x >= v, Excluded(v) => x > v, Unbounded => true }) && (match hi { Included(v) => x <= v, Excluded(v) => x < v, Unbounded => true });
                let want: Model = tiles.iter().filter(|(k, _)| inr(**k)).map(|(k, v)| (*k, v.clone())).collect();
                let desc = format!("library-written archive with a run 100..=139, a run 200..=202 and ids around the last id of zoom 31 ({c:?})");
                let part = quiet(|| PMTiles::from_bytes_partially(b.clone(), (lo, hi))).map_err(|p| format!("partial open with range ({lo:?}, {hi:?}) panicked: {p} ({desc})"))?;
                let mut part = part.map_err(|e| format!("partial open with range ({lo:?}, {hi:?}) fails although the full open succeeds: {e} ({desc})"))?;
                same_content(&mut part, &want, &format!("partial open with range ({lo:?}, {hi:?}) of a {desc}"))?;
                let apart = quiet(|| block_on(PMTiles::from_async_reader_partially(futures::io::Cursor::new(b.clone()), (lo, hi)))).map_err(|p| format!("async partial open with range ({lo:?}, {hi:?}) panicked: {p}"))?
                    .map_err(|e| format!("async partial open with range ({lo:?}, {hi:?}) fails: {e} ({desc})"))?;
                if apart.num_tiles() != want.len() { return Err(format!("async partial open with range ({lo:?}, {hi:?}) sees {} tiles, expected {} ({desc})", apart.num_tiles(), want.len())); }
            }
        }
    }
    Ok(n)
}

// ------------------------------------------------------------------------------------------------ C06
pub fn c06() -> Result<u64, String> {
    let mut r = Rng::new(seed() ^ 6);
    let mut n = 0u64;
    // the largest list whose uncompressed encoding still fits the root budget: written at stream positions > 0 it must still be a single root
    let mk = |len: usize, r: &mut Rng| -> Vec<E> { (0..len as u64).map(|i| E { id: i * 2, off: 130 * i + r.below(2), len: 2, run: 1 }).collect() };
    let mut fit = 4064usize; while fit > 1000 && dir_enc(&mk(fit, &mut Rng::new(1))).len() > 16257 { fit -= 1; }
    let mut plan: Vec<(usize, usize)> = Vec::new();
    for &len in &[0usize, 1, 2, 100, 4000, 4063, 4064, 4070, 4095, 4096, 4097, 9000, 17000, 20000] { plan.push((len, 5)); }
    plan.push((21845, 6)); plan.push((40000, 6));   // (pre == 6: highly regular entries -- see below -- that fit a single root when compressed)
    for pre in [127usize, 1000, 70000] { plan.push((fit, pre)); plan.push((fit - 1, pre)); plan.push((fit + 1, pre)); plan.push((9000, pre)); }
    // lists whose uncompressed encoding has exactly 16256, 16257 (the budget) and 16258 bytes: the budget itself still fits
    for target in [16256usize, 16257, 16258] { for pre in [0usize, 127] { n += 1;
        let mut es: Vec<E> = (0..4000u64).map(|i| E { id: i * 2, off: 130 * i, len: 2, run: 1 }).collect();
        let mut k = 0usize;
        while dir_enc(&es).len() < target && k < es.len() { es[k].len = 200; if dir_enc(&es).len() > target { es[k].len = 2; } k += 1; }   // a length >= 128 costs one more byte
        let mut j = 0usize;
        while dir_enc(&es).len() < target && j < 4000 { es.push(E { id: 8000 + 2 * j as u64, off: 130 * (4000 + j as u64), len: 2, run: 1 }); j += 1; }
        while dir_enc(&es).len() > target { es.pop(); }
        let mut t = es.len(); while dir_enc(&es).len() < target && t > 0 { t -= 1; if es[t].len == 2 { es[t].len = 200; } }
        if dir_enc(&es).len() != target { return Err(format!("generator bug: could not build a list of exactly {target} bytes (got {})", dir_enc(&es).len())); }
        let mut out = Cursor::new(vec![0x11u8; pre]); out.seek(SeekFrom::Start(pre as u64)).unwrap();
        let leaves = util::write_directories(&mut out, &to_entries(&es), Compression::None, None).map_err(|e| format!("write_directories failed: {e}"))?;
        let endpos = out.position() as usize; let buf = out.into_inner(); let root_raw = &buf[pre..endpos];
        let desc = format!("{} entries whose uncompressed encoding has exactly {target} bytes, stream position {pre}", es.len());
        if target <= 16257 { if !leaves.is_empty() || root_raw != &dir_enc(&es)[..] { return Err(format!("list fits the root budget of 16257 bytes but was not written as a single root ({desc}): root {} bytes, leaves {} bytes", root_raw.len(), leaves.len())); } }
        else if leaves.is_empty() || root_raw.len() > 16257 { return Err(format!("list exceeds the root budget but no leaves were written / root has {} bytes ({desc})", root_raw.len())); }
    } }
    for &(len, pre) in &plan { for c in COMPS { for start in [None, Some(1usize), Some(7), Some(4096), Some(100_000)] {
        if start == Some(1) && len > 4100 && !(len == 9000 && pre == 70000) && !(len == 17000) { continue; }
        if pre != 5 && start.is_some() && start != Some(4096) && !(len == 9000 && pre == 70000) { continue; }
        if len == 17000 && !(c == Compression::None && (start == Some(1) || start == Some(7))) { continue; }
        n += 1;
        // entries sized so that the uncompressed encoding is about 4 bytes per entry (root lands around the 16 KiB window at ~4064 entries)
        if pre == 6 && (c == Compression::None || start.is_some()) { continue; }
        let es: Vec<E> = if pre == 6 { (0..len as u64).map(|i| E { id: i, off: i * 7, len: 7, run: 1 }).collect() }
            else if pre != 5 && (len == fit || len == fit - 1 || len == fit + 1) { mk(len, &mut Rng::new(1)) } else { mk(len, &mut r) };
        let mut out = Cursor::new(vec![0x11u8; pre]); out.seek(SeekFrom::Start(pre as u64)).unwrap();
        let strat = start.map(|s| util::WriteDirsOverflowStrategy::OnlyLeafPointers { start_size: Some(s) });
        let leaves = util::write_directories(&mut out, &to_entries(&es), c, strat).map_err(|e| format!("write_directories failed: {e}"))?;
        let endpos = out.position() as usize; let buf = out.into_inner();
        let desc = format!("{len} entries, {c:?}, start_size {start:?}, stream position {pre}");
        if buf[..pre].iter().any(|&x| x != 0x11) { return Err(format!("bytes before the directory were modified ({desc})")); }
        let root_raw = &buf[pre..endpos];
        if root_raw.len() > 16257 { return Err(format!("root directory has {} bytes > 16257 ({desc})", root_raw.len())); }
        let root = dir_dec(&decompress(code(c), root_raw)?).ok_or(format!("root does not decode ({desc})"))?;
        let whole = compress(code(c), &dir_enc(&es));
        if whole.len() <= 16257 { if !leaves.is_empty() || root != es { return Err(format!("list fits ({} bytes) but was not written as a single root ({desc})", whole.len())); } continue; }
        let mut all = Vec::new();
        for p in &root { if p.run != 0 { return Err(format!("root contains a non-pointer entry ({desc})")); }
            let s = p.off as usize; let e = s + p.len as usize; if e > leaves.len() { return Err(format!("leaf pointer outside the leaf section ({desc})")); }
            let leaf = dir_dec(&decompress(code(c), &leaves[s..e])?).ok_or(format!("leaf does not decode with its exact length ({desc})"))?;
            if leaf.first().map(|e| e.id) != Some(p.id) { return Err(format!("pointer id {} is not its leaf's first id ({desc})", p.id)); }
            all.extend(leaf); }
        if all != es { return Err(format!("resolving root and leaves does not reproduce the entries ({desc}): {} vs {}", all.len(), es.len())); }
        let covered: usize = root.iter().map(|p| p.len as usize).sum(); if covered != leaves.len() { return Err(format!("leaf section has {} bytes, pointers cover {covered} ({desc})", leaves.len())); }
    } } }
    Ok(n)
}

// ------------------------------------------------------------------------------------------------ C07
pub fn c07() -> Result<u64, String> {
    let mut r = Rng::new(seed() ^ 7);
    let mut n = 0u64;
    for z in 0..=31u8 { let dim = 1u64 << z;
        let mut pts = vec![(0, 0), (dim - 1, 0), (0, dim - 1), (dim - 1, dim - 1), (dim / 2, dim / 2), (dim / 2, dim.saturating_sub(2) / 2)];
        for _ in 0..40 { pts.push((r.below(dim), r.below(dim))); }
        if z <= 5 { pts.clear(); for x in 0..dim { for y in 0..dim { pts.push((x, y)); } } }
        for (x, y) in pts { n += 1;
            let id = quiet(|| util::tile_id(z, x, y)).map_err(|p| format!("tile_id({z},{x},{y}) panicked: {p}"))?;
            if id != hilbert_id(z, x, y) { return Err(format!("tile_id(z={z}, x={x}, y={y}) = {id}, the v3 Hilbert id is {}", hilbert_id(z, x, y))); }
            match quiet(|| util::zxy(id)) { Ok(Ok(t)) if t == (z, x, y) => {}, other => return Err(format!("zxy({id}) = {other:?}, expected ({z},{x},{y})")) }
        }
        for id in [base_id(z), base_id(z + 1) - 1] { match quiet(|| util::zxy(id)) { Ok(Ok((z2, x, y))) if z2 == z && x < dim && y < dim && util::tile_id(z2, x, y) == id => {}, other => return Err(format!("zxy({id}) at a block edge of zoom {z} = {other:?}")) } }
    }
    let limit = base_id(32);
    for id in [limit, limit + 1, limit + 12345, u64::MAX, u64::MAX - 1].into_iter().chain((0..300).map(|_| limit + r.below(u64::MAX - limit))) { n += 1;
        match quiet(|| util::zxy(id)) { Ok(Err(_)) => {}, other => return Err(format!("zxy({id}) for an id beyond zoom 31 = {other:?}, expected an error")) } }
    // lookup by coordinates that do not denote a tile
    for z in [0u8, 1, 2, 5, 31] { let dim = 1u64 << z;
        for (x, y) in [(0u64, 0u64), (dim - 1, dim - 1), (dim / 2, 0)] {
            let id = util::tile_id(z, x, y);
            let mut pm = PMTiles::new(TileType::Png, Compression::None); pm.add_tile(id, vec![z, 42]).unwrap();
            for k in [1u64, 2, 3] { for (bx, by) in [(x + k * dim, y), (x, y + k * dim), (x + k * dim, y + k * dim), (dim, y), (x, dim), (u64::MAX, y), (x, u64::MAX)] { n += 1;
                match quiet(|| pm.get_tile(bx, by, z)) { Ok(Ok(None)) | Ok(Err(_)) => {}, Ok(Ok(Some(b))) => return Err(format!("get_tile(x={bx}, y={by}, z={z}) is outside the grid but returned the bytes {b:?} of tile {z}/{x}/{y}")), Err(p) => return Err(format!("get_tile(x={bx}, y={by}, z={z}) panicked: {p}")) } } }
        } }
    let lim_id = base_id(32);
    let mut pm = PMTiles::new(TileType::Png, Compression::None);
    for id in [lim_id, lim_id + 1, 0, 1, u64::MAX, util::tile_id(31, (1 << 31) - 1, 0)] { pm.add_tile(id, vec![1, 2, 3]).unwrap(); }
    for z in 32..=255u8 { for (x, y) in [(0u64, 0u64), (1, 0), (u32::MAX as u64, 0), (1 << 32, 1 << 32), (u64::MAX, u64::MAX), (0, 1 << 40), (5, 7)] { n += 1;
        match quiet(|| pm.get_tile(x, y, z)) { Ok(Ok(None)) | Ok(Err(_)) => {}, Ok(Ok(Some(b))) => return Err(format!("get_tile(x={x}, y={y}, z={z}): zoom {z} does not fit the id space but bytes {b:?} were returned")), Err(p) => return Err(format!("get_tile(x={x}, y={y}, z={z}) panicked: {p}")) } } }
    Ok(n)
}

// ------------------------------------------------------------------------------------------------ C08 (run in a child process: a stack overflow aborts)
pub fn c08_child() -> Result<u64, String> {
    let mut r = Rng::new(seed() ^ 8);
    let mut n = 0u64;
    let tiles = gen_tiles(&mut r, 12, 2);
    let mut corpus: Vec<(String, Vec<u8>)> = Vec::new();
    let max10 = [0xffu8, 0xff, 0xff, 0xff, 0xff, 0xff, 0xff, 0xff, 0xff, 0x01];
    let mk_dir = |f: &dyn Fn(&mut Vec<u8>)| { let mut v = Vec::new(); f(&mut v); v };
    let hostile_dirs: Vec<(&str, Vec<u8>)> = vec![
        ("count near 2^64", mk_dir(&|v| v.extend(max10))), ("count 2^60, no data", mk_dir(&|v| v.extend([0x80, 0x80, 0x80, 0x80, 0x80, 0x80, 0x80, 0x80, 0x10]))),
        ("id sum overflow", mk_dir(&|v| { v.push(2); v.extend(max10); v.extend(max10); v.extend([1, 1, 1, 1, 1, 1]); })),
        ("zero first offset", vec![1, 0, 1, 1, 0]), ("offset sum overflow", mk_dir(&|v| { v.extend([2, 0, 1, 1, 1, 2, 2]); v.extend(max10); v.push(0); })),
        ("run overflow", mk_dir(&|v| { v.push(1); v.extend([0xfe, 0xff, 0xff, 0xff, 0xff, 0xff, 0xff, 0xff, 0xff, 0x01]); v.extend([4, 1, 1]); })),
        ("leaf offset near 2^64", mk_dir(&|v| { v.extend([1, 0, 0, 5]); v.extend(max10); })), ("self pointer", vec![1, 0, 0, 5, 1]),
        ("two self pointers", vec![2, 0, 1, 0, 0, 6, 6, 1, 1]), ("truncated", vec![3, 1, 1]), ("empty", vec![]), ("overlong varint", vec![0x80; 11]),
    ];
    for c in [Compression::None, Compression::GZip] {
        let (base, _) = write_at(build(&tiles, c, &Default::default()), 0).map_err(|e| e.to_string())?;
        for (name, d) in &hostile_dirs {
            let enc = compress(code(c), d);
            for (ro, ll) in [(127u64, enc.len() as u64), (127, u64::MAX), (127, 1 << 40)] {
                for (leaf_off, data_off) in [(127u64, 0u64), (u64::MAX, u64::MAX), (u64::MAX - 3, 1 << 63)] {
                    let mut b = base[..127].to_vec(); b.extend(&enc); b.extend([0u8; 64]);
                    b[8..16].copy_from_slice(&ro.to_le_bytes()); b[16..24].copy_from_slice(&ll.to_le_bytes());
                    b[24..32].copy_from_slice(&0u64.to_le_bytes()); b[32..40].copy_from_slice(&0u64.to_le_bytes());
                    b[40..48].copy_from_slice(&leaf_off.to_le_bytes()); b[48..56].copy_from_slice(&(enc.len() as u64).to_le_bytes());
                    b[56..64].copy_from_slice(&data_off.to_le_bytes());
                    corpus.push((format!("{name} / root_len {ll} / leaf_off {leaf_off} / data_off {data_off} / {c:?}"), b));
                }
            }
            corpus.push((format!("directory bytes: {name} {c:?}"), enc));
        }
        for cut in (0..base.len()).step_by(1 + base.len() / 150) { corpus.push((format!("prefix of {cut} bytes ({c:?})"), base[..cut].to_vec())); }
        for pos in 0..base.len().min(200) { for v in [0u8, 1, 0x7f, 0x80, 0xff] { if base[pos] != v { let mut b = base.clone(); b[pos] = v; corpus.push((format!("byte {pos} := {v:#x} ({c:?})"), b)); } } }
    }
    {   // a very long, non-cyclic chain of nested leaf directories (each directory holds one pointer to the next): must be answered, not followed to the end
        let (base, _) = write_at(build(&tiles, Compression::None, &Default::default()), 0).map_err(|e| e.to_string())?;
        for depth in [5usize, 150_000] {
            let put = |v: u64, o: &mut Vec<u8>| { let mut v = v; loop { if v < 128 { o.push(v as u8); break; } o.push((v % 128) as u8 + 128); v /= 128; } };
            let mut leaves = Vec::with_capacity(depth * 12);
            for i in 0..depth { let mut d = vec![1u8, 0, 0]; if i + 1 < depth { d.push(12); put(12 * (i as u64 + 1) + 1, &mut d); } else { d[2] = 1; d.push(1); put(1, &mut d); } d.resize(12, 0); leaves.extend(d); }
            let root = { let mut d = vec![1u8, 0, 0, 12]; put(1, &mut d); d };
            let mut b = base[..127].to_vec(); b.extend(&root); let lo = b.len() as u64; b.extend(&leaves); let dof = b.len() as u64; b.extend([9u8; 16]);
            b[8..16].copy_from_slice(&127u64.to_le_bytes()); b[16..24].copy_from_slice(&(root.len() as u64).to_le_bytes());
            b[24..32].copy_from_slice(&0u64.to_le_bytes()); b[32..40].copy_from_slice(&0u64.to_le_bytes());
            b[40..48].copy_from_slice(&lo.to_le_bytes()); b[48..56].copy_from_slice(&(leaves.len() as u64).to_le_bytes());
            b[56..64].copy_from_slice(&dof.to_le_bytes()); b[64..72].copy_from_slice(&16u64.to_le_bytes());
            corpus.push((format!("chain of {depth} nested leaf directories (None)"), b));
        }
    }
    for (name, b) in corpus { n += 1;
        let res = quiet(|| {
            let _ = Header::from_bytes(&b);
            let _ = Directory::from_bytes(&b, Compression::None);
            let _ = Directory::from_bytes(&b, Compression::GZip);
            if let Ok(mut pm) = PMTiles::from_bytes(b.clone()) { for id in [0u64, 1, 5, u64::MAX] { let _ = pm.get_tile_by_id(id); } let _ = pm.get_tile(1, 1, 1); if pm.num_tiles() < 100_000 { let _ = write_at(pm, 0); } }
            let _ = PMTiles::from_bytes_partially(b.clone(), ..0).map(|p| p.num_tiles());
            let _ = PMTiles::from_bytes_partially(b.clone(), 3..=u64::MAX).map(|p| p.num_tiles());
            let _ = block_on(PMTiles::from_async_reader(futures::io::Cursor::new(b.clone()))).map(|p| p.num_tiles());
        });
        if let Err(p) = res { return Err(format!("panic `{p}` on hostile input: {name}; first bytes {:?}", &b[..b.len().min(24)])); }
        println!("PROGRESS {name}");
    }
    Ok(n)
}

// ------------------------------------------------------------------------------------------------ C09
pub fn c09() -> Result<u64, String> {
    let mut r = Rng::new(seed() ^ 9);
    let mut n = 0u64;
    let coords: Vec<i32> = [0, 1, -1, 21, -21, i32::MAX, i32::MIN, 1_800_000_000, 1_800_000_001, -1_800_000_001, 123_456_789].into_iter().chain((0..400).map(|_| r.next() as i32)).collect();
    for (k, &v) in coords.iter().enumerate() { n += 1;
        let h = Hdr { root_off: r.next(), root_len: r.next(), meta_off: 0, meta_len: u64::MAX, leaf_off: 1, leaf_len: r.next(), data_off: r.next(), data_len: r.next(), n_addr: r.next(), n_entries: 7, n_contents: r.next(),
            clustered: (k % 2) as u8, ic: (k % 5) as u8, tc: ((k / 5) % 5) as u8, tt: (k % 6) as u8, min_zoom: k as u8, max_zoom: 255 - k as u8, min_lon: v, min_lat: coords[(k + 1) % coords.len()], max_lon: coords[(k + 2) % coords.len()], max_lat: v.wrapping_add(1), center_zoom: 3, c_lon: v.wrapping_sub(1), c_lat: v.wrapping_neg() };
        let b = build_header(&h);
        let parsed = Header::from_bytes(&b).map_err(|e| format!("valid header rejected: {e} (bytes {:?})", &b[96..127]))?;
        let mut out = Cursor::new(Vec::new()); parsed.to_writer(&mut out).map_err(|e| e.to_string())?; let b2 = out.into_inner();
        if b2.len() != 127 { return Err(format!("header serialises to {} bytes", b2.len())); }
        if b2 != b { let i = b.iter().zip(&b2).position(|(x, y)| x != y).unwrap(); return Err(format!("parse -> serialise changes byte {i} of a valid header (stored coordinates {:?})", [h.min_lon, h.min_lat, h.max_lon, h.max_lat, h.c_lon, h.c_lat])); }
        let ab = block_on(async { let mut o = futures::io::Cursor::new(Vec::new()); parsed.to_async_writer(&mut o).await.map(|_| o.into_inner()) }).map_err(|e| e.to_string())?;
        if ab != b { return Err("async header serialisation differs".into()); }
        let mut cur = Cursor::new([b.clone(), vec![9, 9, 9]].concat()); Header::from_reader(&mut cur).map_err(|e| e.to_string())?; if cur.position() != 127 { return Err(format!("reader consumed {} bytes instead of 127", cur.position())); }
    }
    let good = build_header(&Hdr { root_off: 127, root_len: 1, meta_off: 128, meta_len: 0, leaf_off: 128, leaf_len: 0, data_off: 128, data_len: 0, n_addr: 0, n_entries: 0, n_contents: 0, clustered: 1, ic: 2, tc: 1, tt: 1, min_zoom: 0, max_zoom: 0, min_lon: 0, min_lat: 0, max_lon: 0, max_lat: 0, center_zoom: 0, c_lon: 0, c_lat: 0 });
    for cut in 0..127 { n += 1; if Header::from_bytes(&good[..cut]).is_ok() { return Err(format!("a header truncated to {cut} bytes was accepted")); }
        if block_on(Header::from_async_reader(&mut futures::io::Cursor::new(good[..cut].to_vec()))).is_ok() { return Err(format!("async: a header truncated to {cut} bytes was accepted")); } }
    for (pos, range) in [(97usize, 5u16..256), (98, 5..256), (99, 6..256), (7, 0..3), (7, 4..256), (0, 0..80), (6, 0..115)] { for v in range { n += 1; let mut b = good.clone(); if b[pos] == v as u8 { continue; } b[pos] = v as u8;
        if Header::from_bytes(&b).is_ok() { return Err(format!("header with byte {pos} = {v} (bad magic/version/enum code) was accepted")); }
        if Header::from_reader(&mut Cursor::new(b.clone())).is_ok() { return Err(format!("from_reader: header with byte {pos} = {v} (bad magic/version/enum code) was accepted")); }
        if block_on(Header::from_async_reader(&mut futures::io::Cursor::new(b.clone()))).is_ok() { return Err(format!("ASYNC reader: header with byte {pos} = {v} (bad magic/version/enum code) was accepted")); } } }
    for pos in [97usize, 98, 99] { for v in 0..(if pos == 99 { 6 } else { 5 }) { let mut b = good.clone(); b[pos] = v; if Header::from_bytes(&b).is_err() { return Err(format!("valid enum code {v} at byte {pos} rejected")); } } }
    // chunked reader (short reads)
    struct Chunked(Vec<u8>, usize);
    impl std::io::Read for Chunked { fn read(&mut self, b: &mut [u8]) -> std::io::Result<usize> { let k = b.len().min(3).min(self.0.len() - self.1); b[..k].copy_from_slice(&self.0[self.1..self.1 + k]); self.1 += k; Ok(k) } }
    let h = Header::from_reader(&mut Chunked(good.clone(), 0)).map_err(|e| format!("header through a reader returning 3 bytes per call: {e}"))?;
    let mut o = Cursor::new(Vec::new()); h.to_writer(&mut o).unwrap(); if o.into_inner() != good { return Err("header read through short reads differs".into()); }
    // degrees -> nearest multiple
    for d in [21e-7f64, 20.5e-7, -20.5e-7, 179.99999995, -179.99999995, 0.00000005, 11.154026, -122.41941558, 139.6917064, 89.99999994] { n += 1;
        let mut pm = PMTiles::new(TileType::Png, Compression::None); pm.internal_compression = Compression::None; pm.center_latitude = d;
        let b = write_at(pm, 0).map_err(|e| e.to_string())?.0; let got = parse_header(&b)?.c_lat;
        if got != (d * 1e7).round() as i32 { return Err(format!("{d} degrees stored as {got}, nearest multiple of 1e-7 is {}", (d * 1e7).round() as i32)); } }
    Ok(n)
}

// ------------------------------------------------------------------------------------------------ C15 / C17 / C13 / C12
pub fn c15() -> Result<u64, String> {
    let mut r = Rng::new(seed() ^ 15);
    let mut n = 0u64;
    {   // a tile entry whose byte range ends beyond u64::MAX (legal to open: nothing is read): every later operation that touches it is an error, never a panic
        let tiles0 = gen_tiles(&mut Rng::new(5), 2, 2);
        let (base, _) = write_at(build(&tiles0, Compression::None, &Default::default()), 0).map_err(|e| e.to_string())?;
        let put = |v: u64, o: &mut Vec<u8>| { let mut v = v; loop { if v < 128 { o.push(v as u8); break; } o.push((v % 128) as u8 + 128); v /= 128; } };
        for (off, len) in [(u64::MAX - 10, 30u64), (u64::MAX - 1, 1), (u64::MAX - 5000, 50_000_000)] { n += 1;
            let mut root = vec![2u8, 1, 1, 1, 1]; put(3, &mut root); put(len, &mut root); put(1, &mut root); put(off, &mut root);   // ids 1, 2; lengths 3, len; offsets 0, off-1 (+1 encoding)
            let mut b = base[..127].to_vec(); b.extend(&root); let dof = b.len() as u64; b.extend([7u8; 64]);
            b[8..16].copy_from_slice(&127u64.to_le_bytes()); b[16..24].copy_from_slice(&(root.len() as u64).to_le_bytes());
            b[24..32].copy_from_slice(&0u64.to_le_bytes()); b[32..40].copy_from_slice(&0u64.to_le_bytes());
            b[40..48].copy_from_slice(&dof.to_le_bytes()); b[48..56].copy_from_slice(&0u64.to_le_bytes());
            b[56..64].copy_from_slice(&1u64.to_le_bytes()); b[64..72].copy_from_slice(&64u64.to_le_bytes());
            let what = format!("archive with a tile entry at absolute offset {} of length {len}", off);
            match quiet(|| PMTiles::from_bytes(b.clone()).map(|mut pm| { let r1 = pm.get_tile_by_id(2).map(|t| t.map(|v| v.len())); let r0 = pm.get_tile_by_id(1).map(|t| t.map(|v| v.len())); let mut o = Cursor::new(Vec::new()); let w = pm.to_writer(&mut o).is_ok(); (r1.is_ok(), r0.ok().flatten(), w) })) {
                Err(p) => return Err(format!("panic `{p}` while looking up / re-saving an {what}")),
                Ok(Ok((ok2, _, wrote))) => { if ok2 { return Err(format!("lookup of the tile whose range lies beyond the end of the stream returned Ok ({what})")); } if wrote { return Err(format!("re-save of an {what} returned Ok")); } }
                Ok(Err(_)) => {} }
            match quiet(|| block_on(async { match PMTiles::from_async_reader(futures::io::Cursor::new(b.clone())).await { Ok(mut pm) => pm.get_tile_by_id_async(2).await.is_ok(), Err(_) => false } })) {
                Err(p) => return Err(format!("panic `{p}` in the async lookup of an {what}")), Ok(true) => return Err(format!("async lookup beyond the end of the stream returned Ok ({what})")), Ok(false) => {} }
        }
    }
    for (k, c) in COMPS.iter().enumerate() { for size in [3usize, 5000] {
        let tiles = if size > 100 { big_tiles(size) } else { gen_tiles(&mut r, size, 2) };
        let c = if size > 100 { Compression::None } else { *c }; if size > 100 && k > 0 { continue; }
        // writing
        let mut s = FaultyStream::new(usize::MAX); build(&tiles, c, &Default::default()).to_writer(&mut s).map_err(|e| e.to_string())?; let ops = s.ops(); let full = s.into_bytes();
        for f in 0..ops { n += 1; let mut s = FaultyStream::new(f);
            match quiet(|| build(&tiles, c, &Default::default()).to_writer(&mut s)) { Ok(Err(_)) => {}, Ok(Ok(())) => return Err(format!("to_writer returned Ok although the stream fails from operation {f} of {ops} ({} tiles, {c:?})", tiles.len())), Err(p) => return Err(format!("to_writer panicked on a fault at operation {f}: {p}")) } }
        // opening + lookups
        let mut s = FaultyStream::with_bytes(full.clone(), usize::MAX); { let mut pm = PMTiles::from_reader(&mut s).map_err(|e| e.to_string())?; for id in tiles.keys().take(3) { pm.get_tile_by_id(*id).map_err(|e| e.to_string())?; } } let ops = s.ops();
        for f in 0..ops { n += 1; let mut s = FaultyStream::with_bytes(full.clone(), f);
            let res = quiet(|| -> std::io::Result<String> { let mut pm = PMTiles::from_reader(&mut s)?;
                if pm.num_tiles() != tiles.len() { return Ok(format!("open reported success with {} of {} tiles", pm.num_tiles(), tiles.len())); }
                for id in tiles.keys().take(3) { if pm.get_tile_by_id(*id)?.is_none() { return Ok(format!("lookup of existing tile {id} reported 'no such tile'")); } } Ok(String::new()) });
            match res { Ok(Err(_)) => {}, Ok(Ok(m)) => return Err(format!("open+lookups returned Ok although the stream fails from operation {f} of {ops} ({c:?}, {} tiles) {m}", tiles.len())), Err(p) => return Err(format!("open panicked on a fault at operation {f}: {p}")) } }
        // partial opens whose range starts strictly INSIDE a leaf directory (the leaf's first id lies outside the range): a fault anywhere is an error
        if size > 100 {
            let keys: Vec<u64> = tiles.keys().copied().collect();
            for (a, z) in [(keys[100], keys[200]), (keys[4500], keys[4600]), (keys[4000], keys[4200])] {
                let mut s = FaultyStream::with_bytes(full.clone(), usize::MAX); let want = { let pm = PMTiles::from_reader_partially(&mut s, a..=z).map_err(|e| e.to_string())?; pm.num_tiles() }; let ops = s.ops();
                for f in 0..ops { n += 1; let mut s = FaultyStream::with_bytes(full.clone(), f);
                    match quiet(|| PMTiles::from_reader_partially(&mut s, a..=z).map(|pm| pm.num_tiles())) { Ok(Err(_)) => {},
                        Ok(Ok(k)) => return Err(format!("partial open with range {a}..={z} (inside a leaf directory) returned Ok with {k} of {want} tiles although the stream fails from operation {f} of {ops} ({} tiles, {c:?})", tiles.len())),
                        Err(p) => return Err(format!("partial open panicked on a fault at operation {f}: {p}")) } }
            }
        }
        // lookups that CONTINUE after a failed lookup (same tile again, tiles sharing its content): an answer is an error or the right bytes
        if size <= 100 {
            let mut dup = tiles.clone(); let first = tiles.iter().next().map(|(k, v)| (*k, v.clone())); if let Some((k0, v0)) = first { dup.insert(k0 + 500, v0.clone()); dup.insert(k0 + 501, v0); }
            let (dbytes, _) = write_at(build(&dup, c, &Default::default()), 0).map_err(|e| e.to_string())?;
            let order: Vec<u64> = dup.keys().chain(dup.keys()).copied().collect();
            let mut s0 = FaultyStream::with_bytes(dbytes.clone(), usize::MAX); { let mut pm = PMTiles::from_reader(&mut s0).map_err(|e| e.to_string())?; for id in &order { let _ = pm.get_tile_by_id(*id); } } let ops2 = s0.ops();
            for f in 0..ops2 { n += 1; let mut s = FaultyStream::with_bytes(dbytes.clone(), f);
                let Ok(Ok(mut pm)) = quiet(|| PMTiles::from_reader(&mut s)) else { continue };
                for id in &order { match quiet(|| pm.get_tile_by_id(*id)) {
                    Ok(Ok(Some(b))) => if &b != &dup[id] { return Err(format!("the stream fails from operation {f} of {ops2}: a later lookup of tile {id} returned Ok with wrong bytes ({} bytes, first {:?}) ({c:?})", b.len(), b.first())); },
                    Ok(Ok(None)) => return Err(format!("the stream fails from operation {f} of {ops2}: lookup of existing tile {id} reported 'no such tile' ({c:?})")),
                    Ok(Err(_)) => {}, Err(p) => return Err(format!("lookup panicked after a fault at operation {f}: {p}")) } }
            }
        }
        // re-write of an opened archive while the SOURCE stream fails
        let mut s = FaultyStream::with_bytes(full.clone(), usize::MAX); { let pm = PMTiles::from_reader(&mut s).map_err(|e| e.to_string())?; pm.to_writer(&mut Cursor::new(Vec::new())).map_err(|e| e.to_string())?; } let ops = s.ops();
        for f in 0..ops { n += 1; let mut s = FaultyStream::with_bytes(full.clone(), f);
            let res = quiet(|| -> std::io::Result<Vec<u8>> { let pm = PMTiles::from_reader(&mut s)?; let mut o = Cursor::new(Vec::new()); pm.to_writer(&mut o)?; Ok(o.into_inner()) });
            match res { Ok(Err(_)) => {}, Ok(Ok(b)) => { let ok = PMTiles::from_bytes(b).map(|p| p.num_tiles() == tiles.len()).unwrap_or(false);
                    return Err(format!("re-writing an opened archive returned Ok although its source stream fails from operation {f} of {ops} ({c:?}); rewritten archive complete: {ok}")) },
                Err(p) => return Err(format!("rewrite panicked on a fault at operation {f}: {p}")) } }
        // directory and header alone
        let es = to_entries(&gen_dir(&mut r, 5, false)); let d = Directory::from(es);
        let mut s = FaultyStream::new(usize::MAX); d.to_writer(&mut s, c).unwrap(); let ops = s.ops();
        for f in 0..ops { n += 1; let mut s = FaultyStream::new(f); if d.to_writer(&mut s, c).is_ok() { return Err(format!("Directory::to_writer({c:?}) returned Ok although the stream fails from operation {f} of {ops}")); } }
    } }
    Ok(n)
}

/// records the sequence of write/seek operations (each write call atomic)
struct Recorder { inner: Cursor<Vec<u8>>, log: Vec<(u64, Vec<u8>)> }
impl std::io::Write for Recorder { fn write(&mut self, b: &[u8]) -> std::io::Result<usize> { self.log.push((self.inner.position(), b.to_vec())); self.inner.write(b) } fn flush(&mut self) -> std::io::Result<()> { Ok(()) } }
impl Seek for Recorder { fn seek(&mut self, p: SeekFrom) -> std::io::Result<u64> { self.inner.seek(p) } }
pub fn c17() -> Result<u64, String> {
    let mut r = Rng::new(seed() ^ 17);
    let mut n = 0u64;
    for (k, c) in COMPS.iter().enumerate() { for size in [0usize, 4, 6000] { if size > 100 && k > 1 { continue; }
        let tiles = if size > 100 { big_tiles(size) } else { gen_tiles(&mut r, size, 2) };
        let mut rec = Recorder { inner: Cursor::new(Vec::new()), log: Vec::new() };
        build(&tiles, *c, &Default::default()).to_writer(&mut rec).map_err(|e| e.to_string())?;
        let full = rec.inner.into_inner();
        for cut in 0..=rec.log.len() { n += 1;
            let mut img: Vec<u8> = Vec::new();
            for (at, data) in &rec.log[..cut] { let e = *at as usize + data.len(); if img.len() < e { img.resize(e, 0); } img[*at as usize..e].copy_from_slice(data); }
            if let Ok(Ok(mut pm)) = quiet(|| PMTiles::from_bytes(img.clone())) { let ok = same_content(&mut pm, &tiles, "torn").is_ok();
                if img != full || !ok { return Err(format!("a write torn after {cut} of {} write operations opens successfully ({} tiles, {c:?}) but is not the complete archive", rec.log.len(), tiles.len())); } }
        }
        // the async writer: every write the adapter issues is recorded the same way
        if size <= 100 {
            let mut apm = PMTiles::new_async(TileType::Png, Compression::None); apm.internal_compression = *c; apm.max_zoom = 7; apm.min_longitude = -12.5; apm.center_latitude = 3.25;
            for (k2, v) in &tiles { apm.add_tile(*k2, v.clone()).unwrap(); }
            let mut arec = ARecorder { inner: futures::io::Cursor::new(Vec::new()), log: Vec::new() };
            block_on(apm.to_async_writer(&mut arec)).map_err(|e| e.to_string())?;
            let afull = arec.inner.into_inner();
            for cut in 0..=arec.log.len() { n += 1;
                let mut img: Vec<u8> = Vec::new();
                for (at, data) in &arec.log[..cut] { let e = *at as usize + data.len(); if img.len() < e { img.resize(e, 0); } img[*at as usize..e].copy_from_slice(data); }
                if let Ok(Ok(_)) = quiet(|| PMTiles::from_bytes(img.clone())) {
                    if img != afull { return Err(format!("an ASYNC write torn after {cut} of {} write operations opens successfully ({} tiles, {c:?}) but is not the complete archive", arec.log.len(), tiles.len())); } }
            }
        }
    } }
    Ok(n)
}
/// async stream recording every poll_write that transfers bytes
struct ARecorder { inner: futures::io::Cursor<Vec<u8>>, log: Vec<(u64, Vec<u8>)> }
impl futures::io::AsyncWrite for ARecorder {
    fn poll_write(mut self: std::pin::Pin<&mut Self>, cx: &mut std::task::Context<'_>, buf: &[u8]) -> std::task::Poll<std::io::Result<usize>> {
        let me = &mut *self; let at = me.inner.position();
        let r = std::pin::Pin::new(&mut me.inner).poll_write(cx, buf);
        if let std::task::Poll::Ready(Ok(k)) = &r { if *k > 0 { me.log.push((at, buf[..*k].to_vec())); } }
        r
    }
    fn poll_flush(mut self: std::pin::Pin<&mut Self>, cx: &mut std::task::Context<'_>) -> std::task::Poll<std::io::Result<()>> { let me = &mut *self; std::pin::Pin::new(&mut me.inner).poll_flush(cx) }
    fn poll_close(mut self: std::pin::Pin<&mut Self>, cx: &mut std::task::Context<'_>) -> std::task::Poll<std::io::Result<()>> { let me = &mut *self; std::pin::Pin::new(&mut me.inner).poll_close(cx) }
}
impl futures::io::AsyncSeek for ARecorder {
    fn poll_seek(mut self: std::pin::Pin<&mut Self>, cx: &mut std::task::Context<'_>, pos: SeekFrom) -> std::task::Poll<std::io::Result<u64>> { let me = &mut *self; std::pin::Pin::new(&mut me.inner).poll_seek(cx, pos) }
}

/// Read+Seek / Write+Seek stream that transfers at most `chunk(k)` bytes per call
struct Frag { inner: Cursor<Vec<u8>>, sched: Vec<usize>, k: usize }
impl Frag { fn next(&mut self) -> usize { let c = self.sched[self.k % self.sched.len()]; self.k += 1; c.max(1) } }
impl std::io::Read for Frag { fn read(&mut self, b: &mut [u8]) -> std::io::Result<usize> { let c = self.next().min(b.len()); self.inner.read(&mut b[..c]) } }
impl std::io::Write for Frag { fn write(&mut self, b: &[u8]) -> std::io::Result<usize> { let c = self.next().min(b.len()); self.inner.write(&b[..c]) } fn flush(&mut self) -> std::io::Result<()> { Ok(()) } }
impl Seek for Frag { fn seek(&mut self, p: SeekFrom) -> std::io::Result<u64> { self.inner.seek(p) } }
pub fn c13() -> Result<u64, String> {
    let mut r = Rng::new(seed() ^ 13);
    let mut n = 0u64;
    for c in COMPS { let tiles = gen_tiles(&mut r, 9, 2);
        let (want, _) = write_at(build(&tiles, c, &Default::default()), 0).map_err(|e| e.to_string())?;
        for sched in [vec![1usize], vec![2], vec![3, 1], vec![7, 1, 1, 64], vec![1, 1000], (0..13).map(|_| 1 + r.below(9) as usize).collect()] { n += 1;
            let mut w = Frag { inner: Cursor::new(Vec::new()), sched: sched.clone(), k: 0 };
            build(&tiles, c, &Default::default()).to_writer(&mut w).map_err(|e| format!("write through a fragmenting stream {sched:?}: {e}"))?;
            if w.inner.get_ref() != &want { return Err(format!("output through a stream that splits writes as {sched:?} differs from the in-memory output ({c:?})")); }
            let rd = Frag { inner: Cursor::new(want.clone()), sched: sched.clone(), k: 0 };
            let mut pm = PMTiles::from_reader(rd).map_err(|e| format!("open through short reads {sched:?} ({c:?}): {e}"))?;
            for (id, v) in &tiles { if pm.get_tile_by_id(*id).map_err(|e| format!("lookup through short reads {sched:?}: {e}"))?.as_ref() != Some(v) { return Err(format!("tile {id} differs when read through short reads {sched:?} ({c:?})")); } }
            let h = Header::from_reader(&mut Frag { inner: Cursor::new(want.clone()), sched: sched.clone(), k: 0 }).map_err(|e| format!("header through short reads {sched:?}: {e}"))?;
            if h.num_addressed_tiles != tiles.len() as u64 { return Err("header differs through short reads".into()); }
        }
    }
    {   // a reader-backed tile larger than 1 MiB read through short transfers, and the archive re-saved through them
        let mut tiles = gen_tiles(&mut r, 4, 2); let big: Vec<u8> = (0..2_600_000u32).map(|i| (i ^ (i >> 8) ^ (i >> 17)) as u8).collect(); tiles.insert(77, big);
        let (want, _) = write_at(build(&tiles, Compression::None, &Default::default()), 0).map_err(|e| e.to_string())?;
        for sched in [vec![1_000_000usize, 7], vec![65_536, 1], vec![1_048_576, 3, 500_000], vec![4096]] { n += 1;
            let rd = Frag { inner: Cursor::new(want.clone()), sched: sched.clone(), k: 0 };
            let mut pm = PMTiles::from_reader(rd).map_err(|e| format!("open through short reads {sched:?}: {e}"))?;
            for (id, v) in &tiles { let got = pm.get_tile_by_id(*id).map_err(|e| format!("lookup of a {}-byte tile through short reads {sched:?}: {e}", v.len()))?;
                if got.as_ref() != Some(v) { return Err(format!("tile {id} ({} bytes) differs when read through short reads {sched:?}: first differing byte at {:?}", v.len(), got.as_ref().and_then(|g| g.iter().zip(v).position(|(a, b)| a != b)))); } }
            let mut out = Cursor::new(Vec::new()); pm.to_writer(&mut out).map_err(|e| format!("re-save of an archive read through short reads {sched:?}: {e}"))?;
            if out.get_ref() != &want { return Err(format!("re-saved archive (source read through short reads {sched:?}, one tile of 2.6 MB) is not byte-identical")); }
        }
    }
    {   // compressed leaf directories read through very small fragments (a decoder has not consumed its trailer when the last entry is out)
        let tiles = noisy_tiles(12000, &mut r);
        for c in [Compression::GZip, Compression::ZStd] {
            let (want, _) = write_at(build(&tiles, c, &Default::default()), 0).map_err(|e| e.to_string())?;
            if parse_header(&want)?.leaf_len == 0 { return Err(format!("generator bug: the {c:?} archive of {} tiles has no leaf directories", tiles.len())); }
            for sched in [vec![1usize], vec![7]] { n += 1;
                let rd = Frag { inner: Cursor::new(want.clone()), sched: sched.clone(), k: 0 };
                let mut pm = PMTiles::from_reader(rd).map_err(|e| format!("open of a {c:?} archive with leaf directories through short reads {sched:?}: {e}"))?;
                if pm.num_tiles() != tiles.len() { return Err(format!("a {c:?} archive with leaf directories opened through short reads {sched:?} has {} tiles instead of {}", pm.num_tiles(), tiles.len())); }
                for (id, v) in tiles.iter().step_by(4000) { if pm.get_tile_by_id(*id).map_err(|e| e.to_string())?.as_ref() != Some(v) { return Err(format!("tile {id} differs through short reads {sched:?} ({c:?})")); } }
            }
        }
    }
    {   // async stream that delivers a few bytes per poll (and is sometimes Pending): header and archive as on an in-memory buffer
        let tiles = gen_tiles(&mut r, 6, 2);
        for c in COMPS { let (b, _) = write_at(build(&tiles, c, &Default::default()), 0).map_err(|e| e.to_string())?;
            for chunk in [1usize, 2, 5, 6, 7, 50] { n += 1;
                let hs = Header::from_bytes(&b[..127]).map_err(|e| e.to_string())?;
                let ha = block_on(Header::from_async_reader(&mut AChunk { inner: futures::io::Cursor::new(b.clone()), chunk, tick: 0 })).map_err(|e| format!("async header through a stream delivering {chunk} bytes per poll: {e}"))?;
                if ha.num_addressed_tiles != hs.num_addressed_tiles || ha.tile_data_offset != hs.tile_data_offset || ha.max_zoom != hs.max_zoom { return Err(format!("async header through a stream delivering {chunk} bytes per poll differs")); }
                let mut a = block_on(PMTiles::from_async_reader(AChunk { inner: futures::io::Cursor::new(b.clone()), chunk, tick: 0 })).map_err(|e| format!("async open through a stream delivering {chunk} bytes per poll ({c:?}): {e}"))?;
                for (k2, v) in &tiles { if block_on(a.get_tile_by_id_async(*k2)).map_err(|e| e.to_string())?.as_ref() != Some(v) { return Err(format!("async lookup of tile {k2} through a stream delivering {chunk} bytes per poll differs ({c:?})")); } }
            }
        }
    }
    {   // an archive with leaf directories through a stream that accepts short writes / delivers short reads
        let tiles = big_tiles(6000);
        let (want, _) = write_at(build(&tiles, Compression::None, &Default::default()), 0).map_err(|e| e.to_string())?;
        for sched in [vec![4096usize, 1, 100], vec![1000], vec![16384, 3]] { n += 1;
            let mut w = Frag { inner: Cursor::new(Vec::new()), sched: sched.clone(), k: 0 };
            build(&tiles, Compression::None, &Default::default()).to_writer(&mut w).map_err(|e| format!("write of an archive with leaf directories through a fragmenting stream {sched:?}: {e}"))?;
            if w.inner.get_ref() != &want { return Err(format!("an archive with leaf directories written through a stream that splits writes as {sched:?} differs from the in-memory output")); }
            let rd = Frag { inner: Cursor::new(want.clone()), sched: sched.clone(), k: 0 };
            let mut pm = PMTiles::from_reader(rd).map_err(|e| format!("open of an archive with leaf directories through short reads {sched:?}: {e}"))?;
            for (id, v) in tiles.iter().step_by(500) { if pm.get_tile_by_id(*id).map_err(|e| e.to_string())?.as_ref() != Some(v) { return Err(format!("tile {id} of an archive with leaf directories differs through short reads {sched:?}")); } }
        }
    }
    Ok(n)
}

/// async stream that delivers at most `chunk` bytes per poll and is Pending every third poll
struct AChunk { inner: futures::io::Cursor<Vec<u8>>, chunk: usize, tick: u32 }
impl futures::io::AsyncRead for AChunk {
    fn poll_read(mut self: std::pin::Pin<&mut Self>, cx: &mut std::task::Context<'_>, buf: &mut [u8]) -> std::task::Poll<std::io::Result<usize>> {
        self.tick += 1;
        if self.tick % 3 == 0 { cx.waker().wake_by_ref(); return std::task::Poll::Pending; }
        let k = buf.len().min(self.chunk);
        let me = &mut *self;
        std::pin::Pin::new(&mut me.inner).poll_read(cx, &mut buf[..k])
    }
}
impl futures::io::AsyncSeek for AChunk {
    fn poll_seek(mut self: std::pin::Pin<&mut Self>, cx: &mut std::task::Context<'_>, pos: SeekFrom) -> std::task::Poll<std::io::Result<u64>> {
        let me = &mut *self;
        std::pin::Pin::new(&mut me.inner).poll_seek(cx, pos)
    }
}
pub fn c12() -> Result<u64, String> {
    let mut r = Rng::new(seed() ^ 12);
    let mut n = 0u64;
    {   // a metadata section that is present but holds no JSON at all (the codec stream of the empty string, or one blank): both readers must agree
        let mut tiles: Model = BTreeMap::new(); for i in 0..3u64 { tiles.insert(i, vec![i as u8 + 1; 5]); }
        for ic in 1u8..=4 { for payload in [&b""[..], &b" "[..], &b"{}"[..]] { n += 1;
            let mut data = Vec::new(); let mut es = Vec::new(); for (id, v) in &tiles { es.push(E { id: *id, off: data.len() as u64, len: v.len() as u32, run: 1 }); data.extend(v); }
            let root = compress(ic, &dir_enc(&es)); let meta = compress(ic, payload); if meta.is_empty() { continue; }
            let roff = 127u64; let moff = roff + root.len() as u64; let doff = moff + meta.len() as u64;
            let h = Hdr { root_off: roff, root_len: root.len() as u64, meta_off: moff, meta_len: meta.len() as u64, leaf_off: doff, leaf_len: 0, data_off: doff, data_len: data.len() as u64,
                n_addr: tiles.len() as u64, n_entries: es.len() as u64, n_contents: es.len() as u64, clustered: 1, ic, tc: 1, tt: 1, min_zoom: 0, max_zoom: 3, min_lon: 0, min_lat: 0, max_lon: 0, max_lat: 0, center_zoom: 0, c_lon: 0, c_lat: 0 };
            let mut b = build_header(&h); b.extend(&root); b.extend(&meta); b.extend(&data);
            let rs = PMTiles::from_bytes(b.clone()).map(|p| (p.num_tiles(), p.meta_data.len())).map_err(|e| e.kind());
            let ra = block_on(PMTiles::from_async_reader(futures::io::Cursor::new(b.clone()))).map(|p| (p.num_tiles(), p.meta_data.len())).map_err(|e| e.kind());
            if rs.is_ok() != ra.is_ok() || (rs.is_ok() && rs != ra) { return Err(format!("archive whose metadata section is the compression (code {ic}) of {payload:?}: sync open returns {rs:?}, async open returns {ra:?}")); }
        } }
    }
    for round in 0..40 { let c = COMPS[round % 4]; let tiles = if round == 39 { big_tiles(6000) } else { gen_tiles(&mut r, 1 + round % 11, 3) }; n += 1;
        let (sb, _) = write_at(build(&tiles, c, &Default::default()), 0).map_err(|e| e.to_string())?;
        let mut apm = PMTiles::new_async(TileType::Png, Compression::None); apm.internal_compression = c; for (k, v) in &tiles { apm.add_tile(*k, v.clone()).unwrap(); }
        let mut out = futures::io::Cursor::new(Vec::new()); block_on(apm.to_async_writer(&mut out)).map_err(|e| format!("async write: {e}"))?; let ab = out.into_inner();
        if c == Compression::None && ab != sb { return Err(format!("async writer output differs from the sync writer's although no codec is involved ({} tiles)", tiles.len())); }
        for (name, b) in [("sync-written", &sb), ("async-written", &ab)] {
            parse_archive(b).map_err(|e| format!("{name} archive invalid: {e}"))?;
            let mut s = PMTiles::from_bytes(b.clone()).map_err(|e| format!("sync open of {name}: {e}"))?; same_content(&mut s, &tiles, &format!("sync read of {name} ({c:?})"))?;
            let mut a = block_on(PMTiles::from_async_reader(futures::io::Cursor::new(b.clone()))).map_err(|e| format!("async open of {name}: {e}"))?;
            let mut ids: Vec<u64> = a.tile_ids().into_iter().copied().collect(); ids.sort_unstable(); if ids != tiles.keys().copied().collect::<Vec<_>>() { return Err(format!("async open of {name} ({c:?}) sees other tile ids")); }
            for (k, v) in tiles.iter().take(40) { if block_on(a.get_tile_by_id_async(*k)).map_err(|e| e.to_string())?.as_ref() != Some(v) { return Err(format!("async lookup of tile {k} in {name} differs ({c:?})")); } }
            let lo = *tiles.keys().nth(tiles.len() / 3).unwrap();
            use std::ops::Bound::*;
            let first = *tiles.keys().next().unwrap();
            for rg in [(Included(lo), Unbounded), (Unbounded, Excluded(0u64)), (Included(0), Excluded(0)), (Unbounded, Included(0)), (Unbounded, Excluded(first)), (Unbounded, Included(first)),
                       (Excluded(first), Unbounded), (Included(first), Excluded(first + 1)), (Excluded(lo), Included(u64::MAX)), (Included(5), Included(3))] {
                if tiles.len() > 100 && !matches!(rg.0, Included(_)) { continue; }
                let pa = block_on(PMTiles::from_async_reader_partially(futures::io::Cursor::new(b.clone()), rg)).map_err(|e| format!("async partial open {rg:?}: {e}"))?;
                let ps = PMTiles::from_bytes_partially(b.clone(), rg).map_err(|e| format!("sync partial open {rg:?}: {e}"))?;
                let mut ia: Vec<u64> = pa.tile_ids().into_iter().copied().collect(); ia.sort_unstable();
                let mut is: Vec<u64> = ps.tile_ids().into_iter().copied().collect(); is.sort_unstable();
                if ia != is { return Err(format!("range-filtered open with {rg:?} of an archive holding tiles {:?}..: async reader yields ids {:?}, sync reader {:?} ({c:?})", tiles.keys().take(4).collect::<Vec<_>>(), &ia[..ia.len().min(6)], &is[..is.len().min(6)])); }
            }
        }
    }
    // archives WITHOUT tiles, and archives with very large metadata (17 MiB decompressed), written and read by both variants
    for c in COMPS { for big_meta in [false, true] { n += 1;
        let mut meta = serde_json::Map::new();
        if big_meta { meta.insert("blob".into(), serde_json::Value::String("ab".repeat(17 * 512 * 1024 + 7))); meta.insert("tail".into(), serde_json::json!([1, 2, 3])); }
        let what = format!("archive without tiles, {} metadata, {c:?}", if big_meta { "17 MiB of" } else { "empty" });
        let tiles = Model::new();
        let (sb, _) = write_at(build(&tiles, c, &meta), 0).map_err(|e| format!("sync write of an {what}: {e}"))?;
        let mut apm = PMTiles::new_async(TileType::Png, Compression::None); apm.internal_compression = c; apm.meta_data = meta.clone();
        let mut out = futures::io::Cursor::new(Vec::new()); block_on(apm.to_async_writer(&mut out)).map_err(|e| format!("async write of an {what}: {e}"))?; let ab = out.into_inner();
        for (name, b) in [("sync-written", &sb), ("async-written", &ab)] {
            let s = PMTiles::from_bytes(b.clone()).map_err(|e| format!("sync open of the {name} {what}: {e}"))?;
            let a = block_on(PMTiles::from_async_reader(futures::io::Cursor::new(b.clone()))).map_err(|e| format!("async open of the {name} {what} fails although the sync open succeeds: {e}"))?;
            if s.num_tiles() != 0 || a.num_tiles() != 0 { return Err(format!("{name} {what}: readers see tiles")); }
            if s.meta_data != meta { return Err(format!("sync open of the {name} {what}: metadata differs")); }
            if a.meta_data != meta { return Err(format!("async open of the {name} {what}: metadata differs from what the sync reader returns")); }
            use std::ops::Bound::*;
            let pa = block_on(PMTiles::from_async_reader_partially(futures::io::Cursor::new(b.clone()), (Included(3u64), Unbounded))).map_err(|e| format!("async partial open of the {name} {what}: {e}"))?;
            if pa.meta_data != meta { return Err(format!("async partial open of the {name} {what}: metadata differs")); }
        }
    } }
    // headers with one byte changed (magic, version, enum codes, flags): the sync and the async reader agree on accept / reject
    {
        let tiles = gen_tiles(&mut r, 3, 2);
        let (b, _) = write_at(build(&tiles, Compression::GZip, &Default::default()), 0).map_err(|e| e.to_string())?;
        for pos in [0usize, 3, 6, 7, 96, 97, 98, 99] { for v in [0u8, 1, 2, 3, 4, 5, 6, 77, 255] { n += 1;
            let mut hb = b[..127].to_vec(); hb[pos] = v;
            let s = Header::from_reader(&mut Cursor::new(hb.clone())).is_ok();
            let a = block_on(Header::from_async_reader(&mut futures::io::Cursor::new(hb.clone()))).is_ok();
            if s != a { return Err(format!("header with byte {pos} set to {v}: sync reader {}, async reader {}", if s { "accepts" } else { "rejects" }, if a { "accepts" } else { "rejects" })); }
            let mut ab = b.clone(); ab[pos] = v;
            let s2 = PMTiles::from_bytes(ab.clone()).is_ok();
            let a2 = block_on(PMTiles::from_async_reader(futures::io::Cursor::new(ab))).is_ok();
            if s2 != a2 { return Err(format!("archive with header byte {pos} set to {v}: sync open {}, async open {}", if s2 { "succeeds" } else { "fails" }, if a2 { "succeeds" } else { "fails" })); }
        } }
    }
    // a GZip directory / metadata section consisting of TWO gzip members (pigz / `cat a.gz b.gz` style): sync and async readers agree on accept/reject and content
    {
        let es: Vec<E> = (0..6u64).map(|i| E { id: 2 + i * 3, off: i * 5, len: 5, run: 1 }).collect();
        let plain = dir_enc(&es);
        for cut in [1usize, plain.len() / 2, plain.len() - 1] { n += 1;
            let two = [compress(2, &plain[..cut]), compress(2, &plain[cut..])].concat();
            let s = Directory::from_bytes(&two, Compression::GZip).map(|d| from_entries(&d)).map_err(|e| e.to_string());
            let a = block_on(Directory::from_async_reader(&mut futures::io::Cursor::new(two.clone()), two.len() as u64, Compression::GZip)).map(|d| from_entries(&d)).map_err(|e| e.to_string());
            if s.is_ok() != a.is_ok() || (s.is_ok() && s != a) { return Err(format!("a GZip directory made of two gzip members (split at {cut}): sync reader gives {:?}, async reader gives {:?}", s.map(|v| v.len()), a.map(|v| v.len()))); }
        }
    }
    // foreign archives with nested leaf directories (tile leaves down to depth 3): sync and async readers agree
    for round in 0..24 { n += 1;
        let tiles = gen_tiles(&mut r, [9, 25, 60][round % 3], 1 + (round % 5) as u64);
        let ic = 1 + (round % 4) as u8;
        let b = foreign_archive(&mut r, &tiles, ic, [1, 2, 3][round % 3], true);
        let desc = format!("foreign nested archive ({} tiles, compression code {ic}, leaf size {})", tiles.len(), [1, 2, 3][round % 3]);
        let s = PMTiles::from_bytes(b.clone()).map_err(|e| e.to_string());
        let a = block_on(PMTiles::from_async_reader(futures::io::Cursor::new(b.clone()))).map_err(|e| e.to_string());
        match (s, a) {
            (Ok(s), Ok(mut a)) => {
                let mut is: Vec<u64> = s.tile_ids().into_iter().copied().collect(); is.sort_unstable();
                let mut ia: Vec<u64> = a.tile_ids().into_iter().copied().collect(); ia.sort_unstable();
                if is != ia { return Err(format!("{desc}: sync reader sees {} ids, async reader {}", is.len(), ia.len())); }
                for (k, v) in tiles.iter().take(10) { if block_on(a.get_tile_by_id_async(*k)).map_err(|e| e.to_string())?.as_ref() != Some(v) { return Err(format!("{desc}: async lookup of tile {k} differs")); } }
            }
            (Err(_), Err(_)) => {}
            (s, a) => return Err(format!("{desc}: sync open gives {:?}, async open gives {:?}", s.map(|p| p.num_tiles()), a.map(|p| p.num_tiles()))),
        }
    }
    // an async stream that hands out its bytes in small pieces (and is sometimes Pending): same header and archive as the sync reader
    {
        let tiles = gen_tiles(&mut r, 7, 2);
        for c in COMPS { let (b, _) = write_at(build(&tiles, c, &Default::default()), 0).map_err(|e| e.to_string())?;
            for chunk in [1usize, 3, 100, 126] { n += 1;
                let hs = Header::from_bytes(&b[..127]).map_err(|e| e.to_string())?;
                let ha = block_on(Header::from_async_reader(&mut AChunk { inner: futures::io::Cursor::new(b.clone()), chunk, tick: 0 })).map_err(|e| format!("async header through a stream delivering {chunk} bytes per poll: {e}"))?;
                if ha.num_addressed_tiles != hs.num_addressed_tiles || ha.max_zoom != hs.max_zoom || ha.tile_data_offset != hs.tile_data_offset || ha.internal_compression != hs.internal_compression {
                    return Err(format!("async header read through a stream delivering {chunk} bytes per poll differs from the sync header ({c:?})")); }
                let mut a = block_on(PMTiles::from_async_reader(AChunk { inner: futures::io::Cursor::new(b.clone()), chunk, tick: 0 })).map_err(|e| format!("async open through a stream delivering {chunk} bytes per poll ({c:?}): {e}"))?;
                for (k, v) in &tiles { if block_on(a.get_tile_by_id_async(*k)).map_err(|e| e.to_string())?.as_ref() != Some(v) { return Err(format!("async lookup of tile {k} through a stream delivering {chunk} bytes per poll differs ({c:?})")); } }
            }
        }
    }
    for (z, x, y) in [(31u8, 0u64, 0u64), (31, (1 << 31) - 1, 5), (30, 7, 7), (0, 0, 0), (1, 1, 1), (12, 3423, 1763)] { n += 1;
        let id = util::tile_id(z, x, y);
        let mut pm = PMTiles::new(TileType::Png, Compression::None); pm.internal_compression = Compression::None; pm.add_tile(id, vec![z, 1, 2]).unwrap();
        let (b, _) = write_at(pm, 0).map_err(|e| e.to_string())?;
        let mut s = PMTiles::from_bytes(b.clone()).map_err(|e| e.to_string())?;
        let mut a = block_on(PMTiles::from_async_reader(futures::io::Cursor::new(b.clone()))).map_err(|e| e.to_string())?;
        for (qx, qy, qz) in [(x, y, z), (x + 1, y, z), (x, y, z.wrapping_add(1)), (0, 0, 32), (x, y, 200)] {
            let rs = quiet(|| s.get_tile(qx, qy, qz)).map_err(|p| format!("sync get_tile({qx},{qy},{qz}) panicked: {p}"))?.map_err(|e| e.to_string());
            let ra = quiet(|| block_on(a.get_tile_async(qx, qy, qz))).map_err(|p| format!("async get_tile({qx},{qy},{qz}) panicked: {p}"))?.map_err(|e| e.to_string());
            if rs != ra { return Err(format!("get_tile(x={qx}, y={qy}, z={qz}) on an archive holding tile {z}/{x}/{y}: sync returns {rs:?}, async returns {ra:?}")); }
        }
    }
    Ok(n)
}

pub fn c20() -> Result<u64, String> {
    /// records every byte position handed out by read()
    struct Spy { inner: Cursor<Vec<u8>>, touched: std::rc::Rc<std::cell::RefCell<Vec<(u64, u64)>>> }
    impl std::io::Read for Spy { fn read(&mut self, b: &mut [u8]) -> std::io::Result<usize> { let p = self.inner.position(); let k = self.inner.read(b)?; if k > 0 { self.touched.borrow_mut().push((p, p + k as u64)); } Ok(k) } }
    impl Seek for Spy { fn seek(&mut self, p: SeekFrom) -> std::io::Result<u64> { self.inner.seek(p) } }
    let mut r = Rng::new(seed() ^ 20);
    let mut n = 0u64;
    for round in 0..40 { n += 1;
        let tiles = gen_tiles(&mut r, 3 + round % 20, 2); let ic = 1 + (round % 4) as u8;
        let b = if round % 2 == 0 { foreign_archive(&mut r, &tiles, ic, [0, 2, 5][round % 3], round % 4 == 0 /* leaf directories nested up to three levels */) } else { write_at(build(&tiles, comp_of(ic), &Default::default()), 0).map_err(|e| e.to_string())?.0 };
        let p = parse_archive_foreign(&b)?; let h = &p.hdr;
        let log = std::rc::Rc::new(std::cell::RefCell::new(Vec::new()));
        let mut pm = PMTiles::from_reader(Spy { inner: Cursor::new(b.clone()), touched: log.clone() }).map_err(|e| e.to_string())?;
        let allowed = [(0u64, 127u64), (h.root_off, h.root_off + h.root_len), (h.meta_off, h.meta_off + h.meta_len), (h.leaf_off, h.leaf_off + h.leaf_len)];
        for (s, e) in log.borrow().iter() { if !allowed.iter().any(|(a, z)| a <= s && e <= z) { return Err(format!("opening read bytes [{s},{e}) outside header/metadata/directory sections (data section at [{},{}))", h.data_off, h.data_off + h.data_len)); } }
        for (id, _) in tiles.iter().take(5) { log.borrow_mut().clear(); pm.get_tile_by_id(*id).map_err(|e| e.to_string())?;
            let (o, l) = p.tiles[id]; let (ws, we) = (h.data_off + o, h.data_off + o + l as u64);
            let lg = log.borrow(); let lo = lg.iter().map(|x| x.0).min(); let hi = lg.iter().map(|x| x.1).max();
            if lo != Some(ws) || hi != Some(we) { return Err(format!("lookup of tile {id} read bytes {lo:?}..{hi:?}, its range is {ws}..{we}")); } }
    }
    {   // async open through a stream whose first transfer is short and whose second poll fails once with `Interrupted`: whatever the outcome, no tile-data byte is read
        use std::pin::Pin; use std::task::{Context, Poll};
        struct Jitter { d: Vec<u8>, pos: usize, calls: usize, first: usize, touched: std::sync::Arc<std::sync::Mutex<Vec<(u64, u64)>>> }
        impl futures::io::AsyncRead for Jitter { fn poll_read(mut self: Pin<&mut Self>, _cx: &mut Context<'_>, b: &mut [u8]) -> Poll<std::io::Result<usize>> {
            self.calls += 1;
            if self.calls == 2 { return Poll::Ready(Err(std::io::Error::new(std::io::ErrorKind::Interrupted, "interrupted"))); }
            let cap = if self.calls == 1 { self.first } else { usize::MAX };
            let c = b.len().min(cap).min(self.d.len() - self.pos); let p = self.pos; b[..c].copy_from_slice(&self.d[p..p + c]); self.pos += c;
            if c > 0 { self.touched.lock().unwrap().push((p as u64, (p + c) as u64)); } Poll::Ready(Ok(c)) } }
        impl futures::io::AsyncSeek for Jitter { fn poll_seek(mut self: Pin<&mut Self>, _cx: &mut Context<'_>, p: SeekFrom) -> Poll<std::io::Result<u64>> {
            let np = match p { SeekFrom::Start(o) => o as i128, SeekFrom::End(o) => self.d.len() as i128 + o as i128, SeekFrom::Current(o) => self.pos as i128 + o as i128 };
            if np < 0 { return Poll::Ready(Err(std::io::Error::new(std::io::ErrorKind::InvalidInput, "negative seek"))); } self.pos = (np as usize).min(self.d.len()); Poll::Ready(Ok(np as u64)) } }
        let mut tiles: Model = BTreeMap::new(); for i in 0..5u64 { tiles.insert(i * 2, vec![i as u8 + 1; 100]); }
        // a layout other writers may use: the tile data section directly behind the header
        let fb = { let mut data = Vec::new(); let mut es = Vec::new(); for (id, v) in &tiles { es.push(E { id: *id, off: data.len() as u64, len: v.len() as u32, run: 1 }); data.extend(v); }
            let root = dir_enc(&es); let meta = b"{}".to_vec(); let doff = 127u64; let roff = doff + data.len() as u64; let moff = roff + root.len() as u64;
            let h = Hdr { root_off: roff, root_len: root.len() as u64, meta_off: moff, meta_len: meta.len() as u64, leaf_off: moff + meta.len() as u64, leaf_len: 0, data_off: doff, data_len: data.len() as u64,
                n_addr: tiles.len() as u64, n_entries: es.len() as u64, n_contents: es.len() as u64, clustered: 1, ic: 1, tc: 1, tt: 1, min_zoom: 0, max_zoom: 3, min_lon: 0, min_lat: 0, max_lon: 0, max_lat: 0, center_zoom: 0, c_lon: 0, c_lat: 0 };
            let mut b = build_header(&h); b.extend(&data); b.extend(&root); b.extend(&meta); b };
        for (name, b) in [("library-written", write_at(build(&tiles, Compression::None, &Default::default()), 0).map_err(|e| e.to_string())?.0), ("foreign", fb)] {
            let p = parse_archive_foreign(&b)?; let h = &p.hdr;
            for first in [1usize, 60, 126] { n += 1;
                let log = std::sync::Arc::new(std::sync::Mutex::new(Vec::new()));
                let res = block_on(PMTiles::from_async_reader(Jitter { d: b.clone(), pos: 0, calls: 0, first, touched: log.clone() }));
                for (lo, hi) in log.lock().unwrap().iter() { if *hi > h.data_off && *lo < h.data_off + h.data_len && h.data_len > 0 {
                    return Err(format!("async open of a {name} archive through a stream with a {first}-byte first transfer followed by one Interrupted error read bytes {lo}..{hi} of the tile data section {}..{} (open returned {})", h.data_off, h.data_off + h.data_len, if res.is_ok() { "Ok" } else { "Err" })); } }
            }
        }
    }
    {   // a lookup that fails once part-way (transient fault, few bytes per read) and is then repeated: the retry reads exactly the tile's range again
        struct Flaky { inner: Cursor<Vec<u8>>, fail_at_read: usize, reads: usize, touched: std::rc::Rc<std::cell::RefCell<Vec<(u64, u64)>>> }
        impl std::io::Read for Flaky { fn read(&mut self, b: &mut [u8]) -> std::io::Result<usize> { self.reads += 1; if self.reads == self.fail_at_read { return Err(std::io::Error::new(std::io::ErrorKind::Other, "transient")); }
            let p = self.inner.position(); let c = b.len().min(4); let k = self.inner.read(&mut b[..c])?; if k > 0 { self.touched.borrow_mut().push((p, p + k as u64)); } Ok(k) } }
        impl Seek for Flaky { fn seek(&mut self, p: SeekFrom) -> std::io::Result<u64> { self.inner.seek(p) } }
        let mut tiles: Model = BTreeMap::new(); tiles.insert(1, vec![1u8; 10]); tiles.insert(2, vec![2u8; 12]); tiles.insert(3, vec![3u8; 9]);
        let b = write_at(build(&tiles, Compression::None, &Default::default()), 0).map_err(|e| e.to_string())?.0;
        let p = parse_archive(&b)?; let h = &p.hdr;
        for fail_after in 1..4usize { n += 1;
            let log = std::rc::Rc::new(std::cell::RefCell::new(Vec::new()));
            let mut pm = PMTiles::from_reader(Flaky { inner: Cursor::new(b.clone()), fail_at_read: usize::MAX, reads: 0, touched: log.clone() }).map_err(|e| e.to_string())?;
            if pm.get_tile_by_id(1).map_err(|e| e.to_string())?.as_ref() != Some(&tiles[&1]) { return Err("lookup of tile 1 through a 4-bytes-per-read stream differs".into()); }
            // no public access to the reader: rebuild with a fault scheduled inside the lookup of tile 2
            let opened_reads = { let l = log.borrow().len(); l };
            let log2 = std::rc::Rc::new(std::cell::RefCell::new(Vec::new()));
            let mut pm2 = PMTiles::from_reader(Flaky { inner: Cursor::new(b.clone()), fail_at_read: usize::MAX, reads: 0, touched: log2.clone() }).map_err(|e| e.to_string())?;
            let _ = pm2.get_tile_by_id(1);
            let reads_so_far = log2.borrow().len();
            let _ = (opened_reads, reads_so_far);
            let log3 = std::rc::Rc::new(std::cell::RefCell::new(Vec::new()));
            let mut pm3 = PMTiles::from_reader(Flaky { inner: Cursor::new(b.clone()), fail_at_read: reads_so_far + fail_after + 1, reads: 0, touched: log3.clone() }).map_err(|e| e.to_string())?;
            let _ = pm3.get_tile_by_id(1);
            let first = pm3.get_tile_by_id(2);
            if first.is_ok() { continue; }   // the fault did not hit this lookup
            log3.borrow_mut().clear();
            let again = pm3.get_tile_by_id(2).map_err(|e| format!("retry of a lookup after a transient fault fails: {e}"))?;
            let (o, l) = p.tiles[&2]; let (ws, we) = (h.data_off + o, h.data_off + o + l as u64);
            let lg = log3.borrow(); let lo = lg.iter().map(|x| x.0).min(); let hi = lg.iter().map(|x| x.1).max();
            if again.as_ref() != Some(&tiles[&2]) || lo != Some(ws) || hi != Some(we) { return Err(format!("after a transient read fault inside the lookup of tile 2, the repeated lookup read bytes {lo:?}..{hi:?} (its range is {ws}..{we}) and returned {:?}", again.map(|v| v.len()))); }
            drop(lg);
            // the same fault, followed by a lookup of the tile stored directly BEHIND the one whose read failed part-way
            let log4 = std::rc::Rc::new(std::cell::RefCell::new(Vec::new()));
            let mut pm4 = PMTiles::from_reader(Flaky { inner: Cursor::new(b.clone()), fail_at_read: reads_so_far + fail_after + 1, reads: 0, touched: log4.clone() }).map_err(|e| e.to_string())?;
            let _ = pm4.get_tile_by_id(1);
            if pm4.get_tile_by_id(2).is_ok() { continue; }
            log4.borrow_mut().clear();
            let next = pm4.get_tile_by_id(3).map_err(|e| format!("lookup of tile 3 after a transient fault inside the lookup of tile 2 fails: {e}"))?;
            let (o, l) = p.tiles[&3]; let (ws, we) = (h.data_off + o, h.data_off + o + l as u64);
            let lg = log4.borrow(); let lo = lg.iter().map(|x| x.0).min(); let hi = lg.iter().map(|x| x.1).max();
            if next.as_ref() != Some(&tiles[&3]) || lo != Some(ws) || hi != Some(we) { return Err(format!("after a transient read fault inside the lookup of tile 2, the lookup of tile 3 (stored directly behind it) read bytes {lo:?}..{hi:?} (its range is {ws}..{we}) and returned {}", if next.as_ref() == Some(&tiles[&3]) { "the right bytes" } else { "other bytes" })); }
        }
    }
    {
        let mut tiles: Model = BTreeMap::new();
        tiles.insert(1, (0..1_100_000u32).map(|i| (i % 251) as u8).collect()); tiles.insert(2, vec![5u8; 70_000]); tiles.insert(3, vec![9u8; 300]);
        let b = write_at(build(&tiles, Compression::None, &Default::default()), 0).map_err(|e| e.to_string())?.0;
        let p = parse_archive(&b)?; let h = &p.hdr;
        let log = std::rc::Rc::new(std::cell::RefCell::new(Vec::new()));
        let mut pm = PMTiles::from_reader(Spy { inner: Cursor::new(b.clone()), touched: log.clone() }).map_err(|e| e.to_string())?;
        for id in [1u64, 2, 3] { n += 1; log.borrow_mut().clear(); let got = pm.get_tile_by_id(id).map_err(|e| e.to_string())?;
            if got.as_ref() != tiles.get(&id) { return Err(format!("large tile {id} read back differs")); }
            let (o, l) = p.tiles[&id]; let (ws, we) = (h.data_off + o, h.data_off + o + l as u64);
            let lg = log.borrow(); let lo = lg.iter().map(|x| x.0).min(); let hi = lg.iter().map(|x| x.1).max();
            if lo != Some(ws) || hi != Some(we) { return Err(format!("lookup of tile {id} ({l} bytes) read bytes {lo:?}..{hi:?}, its range is {ws}..{we}")); } }
    }
    Ok(n)
}
