//! C09 / C16 (thorough tier): native EXHAUSTIVE enumeration of all 2^32 stored coordinate values through the two
//! conversion expressions cut mechanically out of LatLng::{read_lat_lon, write_lat_lon} (gen_latlng.rs):
//! decode -> encode must be the identity.  This is enumeration of a finite domain, reported as such -- not a proof.
use kani_harness::gen_latlng::{r, w};

fn main() {
    let threads = 16u64;
    let total: u64 = 1 << 32;
    let per = total / threads;
    let handles: Vec<_> = (0..threads)
        .map(|t| {
            std::thread::spawn(move || {
                let lo = t * per;
                let hi = if t == threads - 1 { total } else { lo + per };
                for u in lo..hi {
                    let v = (u as u32) as i32;
                    if w(r(v)) != v {
                        return Some(v);
                    }
                }
                None
            })
        })
        .collect();
    let mut bad = None;
    for h in handles {
        if let Some(v) = h.join().unwrap() {
            bad.get_or_insert(v);
        }
    }
    match bad {
        Some(v) => {
            println!("FAIL stored value {v} is written back as {} (decodes to {:?} degrees)", w(r(v)), r(v));
            std::process::exit(1);
        }
        None => println!("OK checked={total}"),
    }
}
