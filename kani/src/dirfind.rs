//! C03 (bounded cross-check, labelled bounded): `Directory::find_entry_for_tile_id` on every directory of up to 3 fully
//! symbolic entries: it returns the FIRST entry that is not a leaf pointer and whose run covers the id, and `None`
//! iff no entry does.  The unbounded proof is the Verus contract of the extracted function (unit `read_directories`), which
//! replaces `Iterator::find` by a verified first-match loop; this harness runs the REAL `Iterator::find` of std under CBMC and
//! so checks that replacement (rule R8) on everything up to the bound.
use pmtiles2::{Directory, Entry};

fn covers(e: &Entry, id: u64) -> bool {
    e.run_length != 0 && e.tile_id <= id && (id - e.tile_id) < e.run_length as u64
}

/// any entry whose run does not leave the 64-bit id space (for hostile entries that do, C08 only requires 'no crash')
fn any_entry() -> Entry {
    let e = Entry { tile_id: kani::any(), offset: kani::any(), length: kani::any(), run_length: kani::any() };
    kani::assume(e.tile_id.checked_add(e.run_length as u64).is_some());
    e
}

fn check(es: &[Entry], id: u64) {
    let d = Directory::from(es.to_vec());
    let got = d.find_entry_for_tile_id(id).copied();
    let mut want: Option<Entry> = None;
    let mut k = 0;
    while k < es.len() {
        if want.is_none() && covers(&es[k], id) { want = Some(es[k]); }
        k += 1;
    }
    assert!(got == want);
}

#[kani::proof]
#[kani::unwind(5)]
fn d1_find_entry() {
    let id: u64 = kani::any();
    let es3 = [any_entry(), any_entry(), any_entry()];
    let n: usize = kani::any();
    kani::assume(n <= 3);
    check(&es3[..n], id);
}
