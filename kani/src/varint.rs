//! C05 (dependency contract): `integer-encoding` 3.0.4 `write_varint` / `read_varint` against the LEB128 spec.
//! Discharges the functional part of the prelude contracts `VWriter::write_varint` / `VReader::read_varint`.
use crate::spec::leb;
use integer_encoding::{VarIntReader, VarIntWriter};

/// write_varint::<u64>(v) emits exactly leb(v)
#[kani::proof]
#[kani::unwind(12)]
fn v1_write_u64() {
    let v: u64 = kani::any();
    let mut buf = [0u8; 10];
    let n_spec = leb(v, &mut buf);
    let mut out = [0u8; 16];
    let mut cur = std::io::Cursor::new(&mut out[..]);
    let n = cur.write_varint(v).unwrap();
    assert!(n == n_spec);
    let mut i = 0;
    while i < 10 {
        if i < n { assert!(out[i] == buf[i]); }
        i += 1;
    }
}

/// write_varint::<u32>(v) emits exactly leb(v)
#[kani::proof]
#[kani::unwind(12)]
fn v2_write_u32() {
    let v: u32 = kani::any();
    let mut buf = [0u8; 10];
    let n_spec = leb(v as u64, &mut buf);
    let mut out = [0u8; 16];
    let mut cur = std::io::Cursor::new(&mut out[..]);
    let n = cur.write_varint(v).unwrap();
    assert!(n == n_spec);
    let mut i = 0;
    while i < 10 {
        if i < n { assert!(out[i] == buf[i]); }
        i += 1;
    }
}

/// reference reader: first terminated LEB group of `b[..len]`, value modulo 2^64; None if unterminated
fn spec_rd(b: &[u8; 11], len: usize) -> Option<(u64, usize)> {
    let mut v: u64 = 0;
    let mut i = 0;
    while i < 11 {
        if i >= len { return None; }
        let g = (b[i] & 0x7f) as u64;
        if i < 10 { v |= g.wrapping_shl(7 * i as u32); }
        if b[i] < 128 { return Some((v, i + 1)); }
        i += 1;
    }
    None
}

macro_rules! read_harness {
    ($name:ident, $ty:ty, $maxlen:expr, $len:expr) => {
        /// read_varint::<$ty> on EVERY byte string of exactly $len bytes: Ok(v) iff a terminated group of at most $maxlen
        /// bytes exists; then v is its LEB value (mod 2^bits) and exactly that group is consumed; otherwise Err.
        #[kani::proof]
        #[kani::unwind(13)]
        fn $name() {
            let b: [u8; 11] = kani::any();
            let len: usize = $len;
            let mut cur = std::io::Cursor::new(&b[..len]);
            let r = cur.read_varint::<$ty>();
            match spec_rd(&b, len) {
                Some((v, k)) if k <= $maxlen => {
                    assert!(r.is_ok());
                    assert!(r.unwrap() == v as $ty);
                    assert!(cur.position() as usize == k);
                }
                _ => { assert!(r.is_err()); }
            }
        }
    };
}
read_harness!(v3_read_u64_len11, u64, 10, 11);
read_harness!(v3_read_u64_len10, u64, 10, 10);
read_harness!(v3_read_u64_len9, u64, 10, 9);
read_harness!(v3_read_u64_len3, u64, 10, 3);
read_harness!(v3_read_u64_len1, u64, 10, 1);
read_harness!(v3_read_u64_len0, u64, 10, 0);
read_harness!(v4_read_u32_len11, u32, 5, 11);
read_harness!(v4_read_u32_len6, u32, 5, 6);
read_harness!(v4_read_u32_len5, u32, 5, 5);
read_harness!(v4_read_u32_len4, u32, 5, 4);
read_harness!(v4_read_u32_len1, u32, 5, 1);
read_harness!(v4_read_u32_len0, u32, 5, 0);

/// round trip on the real dependency: read(write(v)) == v for every u64
#[kani::proof]
#[kani::unwind(12)]
fn v5_roundtrip_u64() {
    let v: u64 = kani::any();
    let mut out = [0u8; 16];
    let n = { let mut cur = std::io::Cursor::new(&mut out[..]); cur.write_varint(v).unwrap() };
    let mut cur = std::io::Cursor::new(&out[..n]);
    assert!(cur.read_varint::<u64>().unwrap() == v);
}
