//! Kani harnesses on the REAL code of /repo and its dependencies (`hilbert_2d`, `integer-encoding`).
//! Every loop in these harnesses is bounded by a constant that follows from an operand width (zoom <= 31,
//! varint <= 10 bytes); with unwinding assertions on they are complete proofs for the stated input domain.
#![allow(dead_code)]

pub mod spec;
#[cfg(kani)]
mod tile_id;
#[cfg(kani)]
mod varint;
#[cfg(kani)]
mod latlng;
#[cfg(kani)]
mod dirfind;
#[cfg(kani)]
mod gen_zoom;
pub mod gen_latlng;
