//! C09 float clauses on the conversion expressions cut mechanically out of `LatLng::{read_lat_lon, write_lat_lon}`
//! (see gen_latlng.rs, regenerated from the expanded crate on every run).
use crate::gen_latlng::{r, w, LAT_LONG_FACTOR};

/// nearest multiple: for every finite degree value in the geographic range the stored integer is within half a step
#[kani::proof]
fn f1_nearest() {
    let d: f64 = kani::any();
    kani::assume(d >= -180.0 && d <= 180.0);
    let v = w(d);
    let exact = d * LAT_LONG_FACTOR;
    let diff = v as f64 - exact;
    assert!(diff <= 0.5 && diff >= -0.5);
}

/// refuter for "decode -> encode is the identity" on a slice of the stored domain (positive verdict for all 2^32
/// values comes from exhaustive native enumeration, see replay `latlng-exhaustive`)
#[kani::proof]
fn f2_identity_slice() {
    let v: i32 = kani::any();
    kani::assume(v >= -32768 && v < 32768);
    assert!(w(r(v)) == v);
}
