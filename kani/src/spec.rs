//! Executable reference definitions transcribed from the PMTiles v3 specification (independent of /repo).

/// first tile id of zoom `z`: sum_{i<z} 4^i
pub fn base_id(z: u8) -> u64 {
    let mut acc = 0u64;
    let mut i = 0u8;
    while i < z {
        acc += 1u64 << (2 * i as u32);
        i += 1;
    }
    acc
}

/// The specification's ZxyToId (same algorithm as the reference implementations)
pub fn spec_id(z: u8, x: u64, y: u64) -> u64 {
    let n: u64 = 1u64 << z;
    let (mut x, mut y) = (x, y);
    let mut d: u64 = 0;
    let mut s: u64 = n / 2;
    while s > 0 {
        let rx: u64 = if (x & s) > 0 { 1 } else { 0 };
        let ry: u64 = if (y & s) > 0 { 1 } else { 0 };
        d += s * s * ((3 * rx) ^ ry);
        // rotate
        if ry == 0 {
            if rx == 1 {
                x = s.wrapping_sub(1).wrapping_sub(x);
                y = s.wrapping_sub(1).wrapping_sub(y);
            }
            core::mem::swap(&mut x, &mut y);
        }
        s /= 2;
    }
    base_id(z) + d
}

/// LEB128 encoding of `v` (the specification's varint), at most 10 bytes
pub fn leb(v: u64, out: &mut [u8; 10]) -> usize {
    let mut v = v;
    let mut i = 0;
    loop {
        if v < 128 {
            out[i] = v as u8;
            return i + 1;
        }
        out[i] = (v % 128) as u8 + 128;
        v /= 128;
        i += 1;
    }
}
