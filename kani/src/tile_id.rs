//! C07: tile ids (harnesses that are not per-zoom; the per-zoom ones are generated into gen_zoom.rs)
use crate::spec::*;
use pmtiles2::util::{tile_id, zxy};

/// H3 + H4: for EVERY u64 id, `zxy` never panics; it is `Err` iff id >= first id of zoom 32;
/// for ids below, the zoom it reports is the unique zoom whose block contains the id.
#[kani::proof]
#[kani::unwind(34)]
fn h3_zxy_total() {
    let id: u64 = kani::any();
    let limit = base_id(32);
    match zxy(id) {
        Ok((z, _x, _y)) => {
            assert!(id < limit);
            assert!(z <= 31);
            assert!(base_id(z) <= id);
            assert!(z == 31 || id < base_id(z + 1));
        }
        Err(_) => assert!(id >= limit),
    }
}

/// zoom blocks are contiguous and ordered: base(z+1) == base(z) + 4^z
#[kani::proof]
#[kani::unwind(34)]
fn h5_blocks_contiguous() {
    let z: u8 = kani::any();
    kani::assume(z <= 31);
    assert!(base_id(z + 1) == base_id(z) + (1u64 << (2 * z as u32)));
    // real code: first and last id of the zoom sit at the block's ends
    assert!(tile_id(z, 0, 0) == base_id(z));
}
